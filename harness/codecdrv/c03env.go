package main

import (
	"fmt"
	"reflect"
	"sort"
	"strconv"
	"strings"

	"github.com/PapaCharlie/go-restli/v2/restli"
	"github.com/PapaCharlie/go-restli/v2/restlicodec"
	"github.com/PapaCharlie/go-restli/v2/restlidata/generated/com/linkedin/restli/common"
	"verifgen/gen/fam"
	"verifgen/hx"
)

// C03, envelopes: the hand-written request/response envelope types of
// v2/restlidata/generated/com/linkedin/restli/common/structs.go (and the "entities" / "value" wrappers that v2/restli builds
// from the same constants) around generated family records. The expected shape is written here from the protocol:
//
//	collection:  {"elements":[...], "paging":{"start","count","links":[{"rel","href","type"}], "total"?}?, "metadata":{...}?}
//	batch:       {"results":{<key>:...}, "statuses":{<key>:int}?, "errors":{<key>:ErrorResponse}?}    <key> = ROR2 (header flavour) of the key
//	batch get request / response entities: {"entities":{<key>:...}}
//	create:      {"id": "<ROR2 (path flavour) of the key>", "location"?: string, "status": int, "entity"?: {...}}, "error"?
//	batch update: {"status": int}
//	action:      {"value": ...}

// canonical text of a key, from the reference document and from the parsed ROR2 tree (same function of the same abstract key)
func canonDoc(d *Doc) string {
	switch d.Kind {
	case "int":
		return strconv.Quote(strconv.FormatInt(d.Z, 10))
	case "bool":
		return strconv.Quote(strconv.FormatBool(d.B))
	case "str", "bytes":
		return strconv.Quote(d.S)
	case "arr":
		parts := make([]string, len(d.Items))
		for i, x := range d.Items {
			parts[i] = canonDoc(x)
		}
		return "[" + strings.Join(parts, " ") + "]"
	case "obj":
		parts := make([]string, len(d.Items))
		for i, x := range d.Items {
			parts[i] = strconv.Quote(d.Keys[i]) + "=" + canonDoc(x)
		}
		sort.Strings(parts)
		return "{" + strings.Join(parts, " ") + "}"
	}
	panic("canonDoc " + d.Kind)
}

func canonR(n *rnode) string {
	switch n.Kind {
	case "leaf":
		return strconv.Quote(n.S)
	case "list":
		parts := make([]string, len(n.Items))
		for i, x := range n.Items {
			parts[i] = canonR(x)
		}
		return "[" + strings.Join(parts, " ") + "]"
	default:
		parts := make([]string, len(n.Items))
		for i, x := range n.Items {
			parts[i] = strconv.Quote(n.Keys[i]) + "=" + canonR(x)
		}
		sort.Strings(parts)
		return "{" + strings.Join(parts, " ") + "}"
	}
}

// replace every member name of the object by the canonical text of the ROR2 key it encodes
func normKeys(n *jnode, flavour int) string {
	if n == nil || n.Kind != "obj" {
		return ""
	}
	for i, k := range n.Keys {
		t, what, detail, raw := refParseROR2(k, flavour)
		if what != "" {
			return "key-" + what + " (" + strconv.Quote(k) + ": " + detail + ")"
		}
		if len(raw) > 0 {
			return "key-raw-reserved-byte (" + strconv.Quote(k) + ")"
		}
		n.Keys[i] = canonR(t)
	}
	return ""
}

func member(n *jnode, name string) *jnode {
	if n == nil || n.Kind != "obj" {
		return nil
	}
	for i, k := range n.Keys {
		if k == name {
			return n.Items[i]
		}
	}
	return nil
}

// the "id" member of a create status: a string holding the ROR2 path encoding of the key
func normID(n *jnode) string {
	id := member(n, "id")
	if id == nil || id.Kind != "str" {
		return ""
	}
	t, what, detail, raw := refParseROR2(id.S, 3)
	if what != "" {
		return "id-" + what + " (" + strconv.Quote(id.S) + ": " + detail + ")"
	}
	if len(raw) > 0 {
		return "id-raw-reserved-byte (" + strconv.Quote(id.S) + ": " + strings.Join(raw, ", ") + ")"
	}
	id.S = canonR(t)
	return ""
}

type keyEnc func(k *Doc, flavour int) string

type envMarshaler interface {
	restlicodec.Marshaler
	restlicodec.Unmarshaler
}

type envCase struct {
	name       string
	value      restlicodec.Marshaler
	fresh      func() envMarshaler // nil: no decode direction
	build      func(enc keyEnc) *Doc
	norm       func(tree *jnode) string
	optEmpty   []string // top-level members that may be absent when they are empty
	unknownOK  bool     // inject an unknown member in the decode direction
	nontrivial bool
}

func obj(kv ...interface{}) *Doc {
	d := &Doc{Kind: "obj"}
	for i := 0; i < len(kv); i += 2 {
		if kv[i+1] == nil || reflect.ValueOf(kv[i+1]).IsNil() {
			continue
		}
		d.Keys = append(d.Keys, kv[i].(string))
		d.Items = append(d.Items, kv[i+1].(*Doc))
	}
	return d
}
func arr(items ...*Doc) *Doc { return &Doc{Kind: "arr", Items: items} }
func dInt(z int64) *Doc      { return &Doc{Kind: "int", Z: z} }
func dStr(s string) *Doc     { return &Doc{Kind: "str", S: s} }

func goPtr[T any](tname string, v *Val) *T {
	ptr := reflect.New(registry[tname])
	schema.toGo(ref(tname), v, ptr.Elem())
	return ptr.Interface().(*T)
}

type funcEnvelope struct {
	m func(w restlicodec.Writer) error
	u func(r restlicodec.Reader) error
}

func (f *funcEnvelope) MarshalRestLi(w restlicodec.Writer) error   { return f.m(w) }
func (f *funcEnvelope) UnmarshalRestLi(r restlicodec.Reader) error { return f.u(r) }

func marshalCompact(m restlicodec.Marshaler) (out string, oc outcome) {
	var err error
	var p interface{}
	func() {
		defer func() { p = recover() }()
		w := restlicodec.NewCompactJsonWriter()
		err = m.MarshalRestLi(w)
		if err == nil {
			out = w.Finalize()
		}
	}()
	return out, classify(err, p)
}

func unmarshalJSON(u restlicodec.Unmarshaler, text string) (oc outcome) {
	var err error
	var p interface{}
	func() {
		defer func() { p = recover() }()
		var rd restlicodec.Reader
		rd, err = restlicodec.NewJsonReader([]byte(text))
		if err == nil {
			err = u.UnmarshalRestLi(rd)
		}
	}()
	return classify(err, p)
}

func runEnvelopes(n int, r *hx.Rand, rep *hx.Report) {
	genKeyStr := func() string { return genString(r, true) }
	innerT, primsT := ref("Inner"), ref("Prims")
	genInner := func() *Val { return schema.gen(r, innerT, genOpts{utf8: true, depth: 1}) }
	genPrims := func() *Val { return schema.gen(r, primsT, genOpts{utf8: true, depth: 1}) }
	i32 := func(x int) *int32 { y := int32(x); return &y }
	str := func(s string) *string { return &s }
	statuses := []int{200, 201, 204, 400, 404, 500}

	genPaging := func() (*common.CollectionMetadata, *Doc) {
		if r.Chance(25) {
			return nil, nil
		}
		p := &common.CollectionMetadata{Start: int32(r.Intn(1000)), Count: int32(r.Intn(100))}
		var total *Doc
		if r.Bool() {
			p.Total = i32(r.Intn(100000))
			total = dInt(int64(*p.Total))
		}
		links := arr()
		for k := r.Intn(3); k > 0; k-- {
			l := &common.Link{Rel: []string{"next", "prev", "self"}[r.Intn(3)], Href: "/things?start=" + fmt.Sprint(r.Intn(50)) + "&q=" + genKeyStr(), Type: "application/json"}
			p.Links = append(p.Links, l)
			links.Items = append(links.Items, obj("rel", dStr(l.Rel), "href", dStr(l.Href), "type", dStr(l.Type)))
		}
		if p.Links == nil && r.Bool() {
			p.Links = []*common.Link{}
		}
		return p, obj("start", dInt(int64(p.Start)), "count", dInt(int64(p.Count)), "links", links, "total", total)
	}
	genCK := func() (*fam.CK, *Doc) {
		kv, pv := genInner(), genInner()
		ck := &fam.CK{Inner: *goPtr[fam.Inner]("Inner", kv)}
		d := schema.refEncode(innerT, kv)
		if r.Chance(70) {
			ck.Params = goPtr[fam.Inner]("Inner", pv)
			d.Keys = append(d.Keys, "$params")
			d.Items = append(d.Items, schema.refEncode(innerT, pv))
		}
		return ck, d
	}
	distinctStrKeys := func(k int) []string {
		seen := map[string]bool{}
		var out []string
		for ; k > 0; k-- {
			s := genKeyStr()
			if !seen[s] {
				seen[s] = true
				out = append(out, s)
			}
		}
		return out
	}

	for i := 0; i < n; i++ {
		var ec envCase
		switch i % 10 {
		case 0: // collection response / batch_create request
			e := &common.Elements[*fam.Inner]{}
			els := arr()
			for k := r.Intn(4); k > 0; k-- {
				v := genInner()
				e.Elements = append(e.Elements, goPtr[fam.Inner]("Inner", v))
				els.Items = append(els.Items, schema.refEncode(innerT, v))
			}
			var paging *Doc
			e.Paging, paging = genPaging()
			ec = envCase{name: "Elements", value: e, fresh: func() envMarshaler { return new(common.Elements[*fam.Inner]) },
				build: func(keyEnc) *Doc { return obj("elements", els, "paging", paging) }, unknownOK: true, nontrivial: len(els.Items) > 0}
		case 1: // finder response with metadata
			e := &common.ElementsWithMetadata[*fam.Prims, *fam.Inner]{}
			els := arr()
			for k := r.Intn(3); k > 0; k-- {
				v := genPrims()
				e.Elements = append(e.Elements, goPtr[fam.Prims]("Prims", v))
				els.Items = append(els.Items, schema.refEncode(primsT, v))
			}
			mv := genInner()
			e.Metadata = goPtr[fam.Inner]("Inner", mv)
			var paging *Doc
			e.Paging, paging = genPaging()
			ec = envCase{name: "ElementsWithMetadata", value: e, fresh: func() envMarshaler { return new(common.ElementsWithMetadata[*fam.Prims, *fam.Inner]) },
				build: func(keyEnc) *Doc {
					return obj("elements", els, "paging", paging, "metadata", schema.refEncode(innerT, mv))
				}, unknownOK: true, nontrivial: len(els.Items) > 0}
		case 2: // batch_get response, string keys
			b := &common.BatchResponse[string, *fam.Inner]{}
			type ent struct {
				k *Doc
				v *Doc
			}
			var results, stats, errs []ent
			for _, k := range distinctStrKeys(r.Intn(4)) {
				switch r.Intn(3) {
				case 0:
					v := genInner()
					b.AddResult(k, goPtr[fam.Inner]("Inner", v))
					results = append(results, ent{dStr(k), schema.refEncode(innerT, v)})
				case 1:
					s := statuses[r.Intn(len(statuses))]
					b.AddStatus(k, s)
					stats = append(stats, ent{dStr(k), dInt(int64(s))})
				default:
					m := genKeyStr()
					b.AddError(k, &common.ErrorResponse{Status: i32(404), Message: str(m)})
					errs = append(errs, ent{dStr(k), obj("status", dInt(404), "message", dStr(m))})
				}
			}
			mk := func(enc keyEnc, l []ent) *Doc {
				d := &Doc{Kind: "obj"}
				for _, e := range l {
					d.Keys = append(d.Keys, enc(e.k, 2))
					d.Items = append(d.Items, e.v)
				}
				return d
			}
			ec = envCase{name: "BatchResponse", value: b, fresh: func() envMarshaler { return new(common.BatchResponse[string, *fam.Inner]) },
				build: func(enc keyEnc) *Doc {
					return obj("results", mk(enc, results), "statuses", mk(enc, stats), "errors", mk(enc, errs))
				},
				norm: func(t *jnode) string {
					for _, m := range []string{"results", "statuses", "errors"} {
						if w := normKeys(member(t, m), 2); w != "" {
							return w
						}
					}
					return ""
				}, optEmpty: []string{"statuses", "errors"}, unknownOK: true, nontrivial: len(results)+len(stats)+len(errs) > 0}
		case 3: // batch_update / batch_delete response, long keys
			b := &common.BatchResponse[int64, *common.BatchEntityUpdateResponse]{}
			results := &Doc{Kind: "obj"}
			var keys []*Doc
			seen := map[int64]bool{}
			for k := r.Intn(4); k > 0; k-- {
				id := i64s[r.Intn(len(i64s))]
				if seen[id] {
					continue
				}
				seen[id] = true
				s := statuses[r.Intn(len(statuses))]
				b.AddResult(id, &common.BatchEntityUpdateResponse{Status: s})
				keys = append(keys, dInt(id))
				results.Items = append(results.Items, obj("status", dInt(int64(s))))
			}
			ec = envCase{name: "BatchResponse", value: b, fresh: func() envMarshaler { return new(common.BatchResponse[int64, *common.BatchEntityUpdateResponse]) },
				build: func(enc keyEnc) *Doc {
					d := &Doc{Kind: "obj", Items: results.Items}
					for _, k := range keys {
						d.Keys = append(d.Keys, enc(k, 2))
					}
					return obj("results", d, "statuses", &Doc{Kind: "obj"}, "errors", &Doc{Kind: "obj"})
				},
				norm:     func(t *jnode) string { return normKeys(member(t, "results"), 2) },
				optEmpty: []string{"statuses", "errors"}, unknownOK: true, nontrivial: len(keys) > 0}
		case 4: // create status, string key
			k := genKeyStr()
			ce := &common.CreatedEntity[string]{Id: k, Status: []int{0, 201, 200}[r.Intn(3)]}
			var loc *Doc
			if r.Bool() {
				ce.Location = str("/things/" + genKeyStr())
				loc = dStr(*ce.Location)
			}
			st := ce.Status
			if st == 0 {
				st = 201 // the protocol's status of a create
			}
			ec = envCase{name: "CreatedEntity", value: ce, fresh: func() envMarshaler { return new(common.CreatedEntity[string]) },
				build: func(enc keyEnc) *Doc {
					return obj("id", dStr(enc(dStr(k), 3)), "location", loc, "status", dInt(int64(st)))
				}, norm: normID, unknownOK: true, nontrivial: true}
		case 5: // batch_create response, long keys
			e := &common.Elements[*common.CreatedEntity[int64]]{}
			type it struct {
				id int64
				st int
			}
			var items []it
			for k := r.Intn(4); k > 0; k-- {
				x := it{i64s[r.Intn(len(i64s))], statuses[r.Intn(len(statuses))]}
				items = append(items, x)
				e.Elements = append(e.Elements, &common.CreatedEntity[int64]{Id: x.id, Status: x.st})
			}
			ec = envCase{name: "Elements[CreatedEntity]", value: e, fresh: func() envMarshaler { return new(common.Elements[*common.CreatedEntity[int64]]) },
				build: func(enc keyEnc) *Doc {
					els := arr()
					for _, x := range items {
						els.Items = append(els.Items, obj("id", dStr(enc(dInt(x.id), 3)), "status", dInt(int64(x.st))))
					}
					return obj("elements", els)
				},
				norm: func(t *jnode) string {
					if els := member(t, "elements"); els != nil {
						for _, x := range els.Items {
							if w := normID(x); w != "" {
								return w
							}
						}
					}
					return ""
				}, unknownOK: true, nontrivial: len(items) > 0}
		case 6: // create status, complex key
			ck, kd := genCK()
			ce := &common.CreatedEntity[*fam.CK]{Id: ck, Status: 201}
			ec = envCase{name: "CreatedEntity", value: ce, fresh: func() envMarshaler { return new(common.CreatedEntity[*fam.CK]) },
				build: func(enc keyEnc) *Doc { return obj("id", dStr(enc(kd, 3)), "status", dInt(201)) }, norm: normID, unknownOK: true, nontrivial: true}
		case 7: // create with returned entity
			k := genKeyStr()
			v := genPrims()
			ce := &common.CreatedAndReturnedEntity[string, *fam.Prims]{CreatedEntity: common.CreatedEntity[string]{Id: k, Status: 201}, Entity: goPtr[fam.Prims]("Prims", v)}
			var loc *Doc
			if r.Bool() {
				ce.Location = str("/p/" + genKeyStr())
				loc = dStr(*ce.Location)
			}
			ec = envCase{name: "CreatedAndReturnedEntity", value: ce, fresh: func() envMarshaler { return new(common.CreatedAndReturnedEntity[string, *fam.Prims]) },
				build: func(enc keyEnc) *Doc {
					return obj("id", dStr(enc(dStr(k), 3)), "location", loc, "status", dInt(201), "entity", schema.refEncode(primsT, v))
				}, norm: normID, unknownOK: true, nontrivial: true}
		case 8: // the "entities" wrapper of batch_update requests / batch_get responses (v2/restli/collection_batch_methods.go batchEntities)
			type ent struct {
				k *Doc
				v *Doc
			}
			var ents []ent
			var m func(restlicodec.Writer) error
			var fresh func() envMarshaler
			if r.Bool() {
				mm := map[string]*fam.Inner{}
				for _, k := range distinctStrKeys(r.Intn(4)) {
					v := genInner()
					mm[k] = goPtr[fam.Inner]("Inner", v)
					ents = append(ents, ent{dStr(k), schema.refEncode(innerT, v)})
				}
				m = func(w restlicodec.Writer) error {
					return w.WriteMap(func(kw func(string) restlicodec.Writer) error { return common.MarshalBatchEntities(mm, kw(common.EntitiesField)) })
				}
				fresh = func() envMarshaler { return entitiesWrapper(map[string]*fam.Inner{}) }
			} else {
				mm := map[*fam.CK]*fam.Prims{}
				seen := map[string]bool{}
				for k := r.Intn(3); k > 0; k-- {
					ck, kd := genCK()
					if seen[canonDoc(kd)] {
						continue
					}
					seen[canonDoc(kd)] = true
					v := genPrims()
					mm[ck] = goPtr[fam.Prims]("Prims", v)
					ents = append(ents, ent{kd, schema.refEncode(primsT, v)})
				}
				m = func(w restlicodec.Writer) error {
					return w.WriteMap(func(kw func(string) restlicodec.Writer) error { return common.MarshalBatchEntities(mm, kw(common.EntitiesField)) })
				}
				fresh = func() envMarshaler { return entitiesWrapper(map[*fam.CK]*fam.Prims{}) }
			}
			ec = envCase{name: "entities", value: restlicodec.MarshalerFunc(m), fresh: fresh,
				build: func(enc keyEnc) *Doc {
					d := &Doc{Kind: "obj"}
					for _, e := range ents {
						d.Keys = append(d.Keys, enc(e.k, 2))
						d.Items = append(d.Items, e.v)
					}
					return obj("entities", d)
				}, norm: func(t *jnode) string { return normKeys(member(t, "entities"), 2) }, nontrivial: len(ents) > 0}
		default: // the "value" wrapper of action responses (v2/restli/actions.go) and a batch update status
			if r.Bool() {
				v := genPrims()
				p := goPtr[fam.Prims]("Prims", v)
				ec = envCase{name: "value", value: restlicodec.MarshalerFunc(func(w restlicodec.Writer) error {
					return w.WriteMap(func(kw func(string) restlicodec.Writer) error { return p.MarshalRestLi(kw(common.ValueField)) })
				}), build: func(keyEnc) *Doc { return obj("value", schema.refEncode(primsT, v)) }, nontrivial: true}
			} else {
				s := []int{0, 204, 200, 404}[r.Intn(4)]
				st := s
				if st == 0 {
					st = 204
				}
				ec = envCase{name: "BatchEntityUpdateResponse", value: &common.BatchEntityUpdateResponse{Status: s}, fresh: func() envMarshaler { return new(common.BatchEntityUpdateResponse) },
					build: func(keyEnc) *Doc { return obj("status", dInt(int64(st))) }, unknownOK: true, nontrivial: true}
			}
		}
		checkEnvelope(ec, r, rep)
	}
}

func entitiesWrapper[K comparable, V restlicodec.Marshaler](m map[K]V) envMarshaler {
	return &funcEnvelope{
		m: func(w restlicodec.Writer) error {
			return w.WriteMap(func(kw func(string) restlicodec.Writer) error { return common.MarshalBatchEntities(m, kw(common.EntitiesField)) })
		},
		u: func(rd restlicodec.Reader) error {
			return rd.ReadRecord(restlicodec.NewRequiredFields().Add(common.EntitiesField), func(rd restlicodec.Reader, field string) error {
				if field == common.EntitiesField {
					return common.UnmarshalBatchEntities(m, rd)
				}
				return rd.Skip()
			})
		}}
}

func checkEnvelope(ec envCase, r *hx.Rand, rep *hx.Report) {
	rep.Evaluations++
	rep.Count("envelope=" + ec.name)
	site := "v2/restlidata/generated/com/linkedin/restli/common/structs.go " + ec.name
	sig := func(what string) string { return "conform:envelope:" + ec.name + ":" + what }
	canon := func(k *Doc, flavour int) string { return canonDoc(k) }
	want := ec.build(canon)
	text, oc := marshalCompact(ec.value)
	cd := map[string]interface{}{"mode": "c03", "direction": "envelope", "envelope": ec.name, "document": text, "document_quoted": strconv.Quote(text),
		"reference_with_canonical_keys": want.refJSONSafe()}
	rep.Distinct("env"+ec.name+text, ec.nontrivial)
	if oc.Class != "ok" {
		rep.Fail(sig("marshal-"+oc.Class), "the envelope cannot be marshalled", site, cd, oc.Text)
		return
	}
	// judge a JSON text against the reference shape; returns the narrow failure and its detail
	judge := func(text string, decoded bool) (string, interface{}) {
		tree, what := strictJSON(text)
		if what != "" {
			return what, nil
		}
		if ec.norm != nil {
			if w := ec.norm(tree); w != "" {
				return strings.SplitN(w, " ", 2)[0], w
			}
		}
		w := want.clone()
		if decoded {
			// CollectionMetadata.total has the schema default 0: decoding fills it
			for i, k := range w.Keys {
				if k == "paging" && member2(w.Items[i], "total") == nil {
					w.Items[i].Keys = append(w.Items[i].Keys, "total")
					w.Items[i].Items = append(w.Items[i].Items, dInt(0))
				}
			}
		}
		for _, name := range ec.optEmpty {
			for i, k := range w.Keys {
				if k == name && len(w.Items[i].Keys) == 0 && member(tree, name) == nil {
					w.Keys = append(w.Keys[:i], w.Keys[i+1:]...)
					w.Items = append(w.Items[:i], w.Items[i+1:]...)
					break
				}
			}
		}
		cmp := &treeCmp{}
		cmp.json(tree, w, "")
		if len(cmp.diffs) > 0 {
			return "shape-differs", cmp.diffs
		}
		return "", nil
	}
	if what, detail := judge(text, false); what != "" {
		cd["detail"] = detail
		rep.Fail(sig(what), "the marshalled envelope does not have the shape the protocol prescribes", site, cd, detail)
		return
	}
	if ec.nontrivial {
		rep.Sample(cd)
	}
	if ec.fresh == nil {
		return
	}
	// decode direction: a reference rendering (members permuted, an unknown member, whitespace, any legal key encoding)
	kind := ror2Kinds[r.Intn(4)] // not "mixed": inside a JSON string the encoded key has to stay valid UTF-8
	wire := ec.build(func(k *Doc, flavour int) string { return c03ROR2(k, flavour, kind, r) })
	permuteMembers(wire, r)
	for i, k := range wire.Keys {
		if k == "paging" {
			permuteMembers(wire.Items[i], r)
		}
	}
	feats := "permuted"
	if ec.unknownOK && r.Chance(50) {
		pos := r.Intn(len(wire.Keys) + 1)
		wire.Keys = append(wire.Keys[:pos], append([]string{"zzUnknownMember"}, wire.Keys[pos:]...)...)
		wire.Items = append(wire.Items[:pos], append([]*Doc{obj("a", arr(dInt(1), dStr("x")))}, wire.Items[pos:]...)...)
		feats += "+unknown-member"
	}
	text2 := c03JSON(wire, jsonVariant{ws: r.Bool(), escapes: r.Intn(3)}, r)
	rep.Count("envelope-decode:" + feats)
	cd2 := map[string]interface{}{"mode": "c03", "direction": "envelope-decode", "envelope": ec.name, "variant": feats, "document": text2, "document_quoted": strconv.Quote(text2)}
	back := ec.fresh()
	oc2 := unmarshalJSON(back, text2)
	if oc2.Class != "ok" {
		what := "reject"
		if strings.Contains(feats, "unknown-member") {
			what = "reject-unknown-member"
		}
		cd2["outcome"] = oc2
		rep.Fail(sig(what), "a conforming envelope is rejected by the envelope's reader", site, cd2, oc2.Text)
		return
	}
	text3, oc3 := marshalCompact(back)
	cd2["decoded_remarshalled"] = text3
	if oc3.Class != "ok" {
		rep.Fail(sig("decoded-differs"), "the decoded envelope cannot be marshalled again", site, cd2, oc3.Text)
		return
	}
	if what, detail := judge(text3, true); what != "" {
		cd2["detail"] = detail
		rep.Fail(sig("decoded-differs"), "decoding a conforming envelope yields other contents (judged on its re-marshalled form)", site, cd2, detail)
	}
}

func member2(d *Doc, name string) *Doc {
	if d == nil {
		return nil
	}
	for i, k := range d.Keys {
		if k == name {
			return d.Items[i]
		}
	}
	return nil
}

func permuteMembers(d *Doc, r *hx.Rand) {
	if d == nil || d.Kind != "obj" {
		return
	}
	for i := len(d.Keys) - 1; i > 0; i-- {
		j := r.Intn(i + 1)
		d.Keys[i], d.Keys[j] = d.Keys[j], d.Keys[i]
		d.Items[i], d.Items[j] = d.Items[j], d.Items[i]
	}
}

// the protocol's header names and version
func checkProtocolHeaders(rep *hx.Report) {
	for _, h := range []struct{ name, got, want string }{
		{"ProtocolVersion", restli.ProtocolVersion, "2.0.0"},
		{"ProtocolVersionHeader", restli.ProtocolVersionHeader, "X-RestLi-Protocol-Version"},
		{"MethodHeader", restli.MethodHeader, "X-RestLi-Method"},
		{"ErrorResponseHeader", restli.ErrorResponseHeader, "X-RestLi-Error-Response"},
		{"IDHeader", restli.IDHeader, "X-RestLi-Id"},
	} {
		rep.Evaluations++
		rep.Count("header-constant")
		if h.got != h.want {
			rep.Fail("conform:header:"+h.name, "a protocol header constant differs from the Rest.li 2.0 name", "v2/restli/http.go", map[string]interface{}{"mode": "c03", "constant": h.name, "value": h.got, "protocol": h.want}, h.got)
		}
	}
	for _, h := range []struct{ name, got, want string }{
		{"elements", common.ElementsField, "elements"}, {"value", common.ValueField, "value"}, {"status", common.StatusField, "status"}, {"statuses", common.StatusesField, "statuses"},
		{"results", common.ResultsField, "results"}, {"error", common.ErrorField, "error"}, {"errors", common.ErrorsField, "errors"}, {"id", common.IdField, "id"},
		{"location", common.LocationField, "location"}, {"paging", common.PagingField, "paging"}, {"metadata", common.MetadataField, "metadata"}, {"entity", common.EntityField, "entity"},
		{"entities", common.EntitiesField, "entities"},
	} {
		rep.Evaluations++
		rep.Count("envelope-member-constant")
		if h.got != h.want {
			rep.Fail("conform:envelope:member-name:"+h.name, "an envelope member name constant differs from the protocol's", "v2/restlidata/generated/com/linkedin/restli/common/structs.go", map[string]interface{}{"mode": "c03", "constant": h.name, "value": h.got}, h.got)
		}
	}
}
