package main

import (
	"fmt"
	"math"
	"sort"
	"strconv"
	"strings"
	"unicode/utf8"

	"verifgen/hx"
)

// An INDEPENDENT reference encoder / renderer written from the Rest.li 2.0 wire rules (shares no code with the library):
// used to build conforming documents (C03 converse direction, C06 mutations, C11 invalid documents).
type Doc struct {
	Kind  string // int float32 float64 bool str bytes arr obj null
	Z     int64
	Bits  uint64
	B     bool
	S     string
	Items []*Doc
	Keys  []string
}

func (d *Doc) clone() *Doc {
	if d == nil {
		return nil
	}
	c := *d
	c.Items = make([]*Doc, len(d.Items))
	for i, x := range d.Items {
		c.Items[i] = x.clone()
	}
	c.Keys = append([]string{}, d.Keys...)
	return &c
}

// value -> document (records: includes flattened, then own fields, declaration order; unset optional fields omitted)
func (s *Schema) refEncode(t RType, v *Val) *Doc {
	switch v.K {
	case "int", "long":
		return &Doc{Kind: "int", Z: v.Z}
	case "float":
		return &Doc{Kind: "float32", Bits: v.Bits}
	case "double":
		return &Doc{Kind: "float64", Bits: v.Bits}
	case "bool":
		return &Doc{Kind: "bool", B: v.B}
	case "str":
		return &Doc{Kind: "str", S: v.S}
	case "bytes", "fixed":
		return &Doc{Kind: "bytes", S: v.S}
	case "enum":
		n := s.Types[t.Reference.Name]
		return &Doc{Kind: "str", S: n.Symbols[v.Z-1]}
	case "arr":
		d := &Doc{Kind: "arr"}
		for _, x := range v.Items {
			d.Items = append(d.Items, s.refEncode(*t.Array, x))
		}
		return d
	case "map":
		d := &Doc{Kind: "obj"}
		for i, x := range v.Items {
			d.Keys = append(d.Keys, v.Keys[i])
			d.Items = append(d.Items, s.refEncode(*t.Map, x))
		}
		return d
	case "rec":
		d := &Doc{Kind: "obj"}
		s.refFields(t.Reference.Name, v, d)
		return d
	case "union":
		n := s.Types[t.Reference.Name]
		d := &Doc{Kind: "obj"}
		for i, m := range n.Members {
			if v.Fields[i] != nil {
				d.Keys = append(d.Keys, m.Alias)
				d.Items = append(d.Items, s.refEncode(m.Type, v.Fields[i]))
			}
		}
		return d
	}
	panic("refEncode " + v.K)
}

func (s *Schema) refFields(name string, v *Val, d *Doc) {
	n := s.Types[name]
	for i, inc := range n.Includes {
		s.refFields(inc, v.Incs[i], d)
	}
	for i, f := range n.Fields {
		if v.Fields[i] != nil {
			d.Keys = append(d.Keys, f.Name)
			d.Items = append(d.Items, s.refEncode(f.Type, v.Fields[i]))
		}
	}
}

func floatText(kind string, bits uint64) (text string, special bool) {
	var f float64
	if kind == "float32" {
		f = float64(math.Float32frombits(uint32(bits)))
	} else {
		f = math.Float64frombits(bits)
	}
	switch {
	case math.IsNaN(f):
		return "NaN", true
	case math.IsInf(f, 1):
		return "Infinity", true
	case math.IsInf(f, -1):
		return "-Infinity", true
	}
	return strconv.FormatFloat(f, 'g', -1, 64), false
}

// JSON: RFC 8259, minimal escaping unless alt (then \uXXXX for everything non-alphanumeric, incl. surrogate pairs and \/)
type jsonStyle struct {
	alt   bool   // alternative but legal escapes
	ws    bool   // insignificant whitespace
}

func jsonString(s string, st jsonStyle) string {
	var sb strings.Builder
	sb.WriteByte('"')
	for _, r := range s {
		switch {
		case st.alt && r == '/':
			sb.WriteString(`\/`)
		case st.alt && !(r < 128 && (r == ' ' || (r >= '0' && r <= '9') || (r >= 'a' && r <= 'z') || (r >= 'A' && r <= 'Z'))):
			if r >= 0x10000 {
				r -= 0x10000
				fmt.Fprintf(&sb, `\u%04x\u%04X`, 0xD800+(r>>10), 0xDC00+(r&0x3FF))
			} else {
				fmt.Fprintf(&sb, `\u%04X`, r)
			}
		case r == '"':
			sb.WriteString(`\"`)
		case r == '\\':
			sb.WriteString(`\\`)
		case r == '\b':
			sb.WriteString(`\b`)
		case r == '\f':
			sb.WriteString(`\f`)
		case r == '\n':
			sb.WriteString(`\n`)
		case r == '\r':
			sb.WriteString(`\r`)
		case r == '\t':
			sb.WriteString(`\t`)
		case r < 0x20:
			fmt.Fprintf(&sb, `\u%04x`, r)
		default:
			sb.WriteRune(r)
		}
	}
	sb.WriteByte('"')
	return sb.String()
}

func latin1ToUtf8(s string) string {
	rs := make([]rune, len(s))
	for i := 0; i < len(s); i++ {
		rs[i] = rune(s[i])
	}
	return string(rs)
}

// renderable as JSON only if every string is valid UTF-8
func (d *Doc) jsonOK() bool {
	if d == nil {
		return true
	}
	if d.Kind == "str" && !utf8.ValidString(d.S) {
		return false
	}
	for _, k := range d.Keys {
		if !utf8.ValidString(k) {
			return false
		}
	}
	for _, x := range d.Items {
		if !x.jsonOK() {
			return false
		}
	}
	return true
}

func (d *Doc) refJSON(st jsonStyle, r *hx.Rand) string {
	ws := func() string {
		if st.ws && r != nil {
			return []string{"", " ", "\n", "\t ", "  \r\n"}[r.Intn(5)]
		}
		return ""
	}
	switch d.Kind {
	case "null":
		return "null"
	case "int":
		return strconv.FormatInt(d.Z, 10)
	case "float32", "float64":
		t, special := floatText(d.Kind, d.Bits)
		if special {
			return `"` + t + `"`
		}
		return t
	case "bool":
		return strconv.FormatBool(d.B)
	case "str":
		return jsonString(d.S, st)
	case "bytes":
		return jsonString(latin1ToUtf8(d.S), st)
	case "arr":
		parts := make([]string, len(d.Items))
		for i, x := range d.Items {
			parts[i] = ws() + x.refJSON(st, r) + ws()
		}
		return "[" + ws() + strings.Join(parts, ",") + "]"
	case "obj":
		parts := make([]string, len(d.Items))
		for i, x := range d.Items {
			parts[i] = ws() + jsonString(d.Keys[i], st) + ws() + ":" + ws() + x.refJSON(st, r) + ws()
		}
		return "{" + ws() + strings.Join(parts, ",") + "}"
	}
	panic("refJSON " + d.Kind)
}

// ROR2: (k:v,...) / List(...) / '' ; reserved characters percent-encoded. The reference encodes every byte that is not
// an ASCII letter or digit (a legal, maximal encoding) unless minimal is set, in which case only what the context requires.
func refPercent(s string, flavour int, minimal bool) string {
	if s == "" {
		return "''"
	}
	var sb strings.Builder
	for i := 0; i < len(s); i++ {
		c := s[i]
		alnum := (c >= '0' && c <= '9') || (c >= 'a' && c <= 'z') || (c >= 'A' && c <= 'Z')
		keep := alnum
		if minimal && !alnum {
			switch flavour {
			case 2: // header: only % , ( ) ' :
				keep = !strings.ContainsRune("%,()':", rune(c))
			default:
				keep = strings.ContainsRune("-._~", rune(c))
			}
		}
		if keep {
			sb.WriteByte(c)
		} else {
			fmt.Fprintf(&sb, "%%%02X", c)
		}
	}
	return sb.String()
}

func (d *Doc) refROR2(flavour int, minimal bool) string {
	switch d.Kind {
	case "int":
		return strconv.FormatInt(d.Z, 10)
	case "float32", "float64":
		t, _ := floatText(d.Kind, d.Bits)
		return refPercent(t, flavour, true)
	case "bool":
		return strconv.FormatBool(d.B)
	case "str", "bytes":
		return refPercent(d.S, flavour, minimal)
	case "arr":
		parts := make([]string, len(d.Items))
		for i, x := range d.Items {
			parts[i] = x.refROR2(flavour, minimal)
		}
		return "List(" + strings.Join(parts, ",") + ")"
	case "obj":
		parts := make([]string, len(d.Items))
		for i, x := range d.Items {
			parts[i] = refPercent(d.Keys[i], flavour, minimal) + ":" + x.refROR2(flavour, minimal)
		}
		return "(" + strings.Join(parts, ",") + ")"
	}
	panic("refROR2 " + d.Kind)
}

func (d *Doc) render(f int, r *hx.Rand, alt bool) string {
	switch f {
	case 0:
		return d.refJSON(jsonStyle{alt: alt}, r)
	case 1:
		return d.refJSON(jsonStyle{alt: alt, ws: true}, r)
	default:
		return d.refROR2(f, !alt)
	}
}

// ---- document mutations (C06)
// every object of the document, with the schema type it stands for (records / unions / maps)
type objRef struct {
	d    *Doc
	path string
	rec  string // record name when the object is a record
}

func (s *Schema) objects(t RType, d *Doc, path string, out *[]objRef) {
	if d == nil || d.Kind == "null" {
		return
	}
	switch {
	case t.Primitive != "":
	case t.Array != nil:
		for i, x := range d.Items {
			s.objects(*t.Array, x, fmt.Sprintf("%s[%d]", path, i), out)
		}
	case t.Map != nil:
		*out = append(*out, objRef{d, path, ""})
		for i, x := range d.Items {
			s.objects(*t.Map, x, joinPath(path, d.Keys[i]), out)
		}
	default:
		n := s.Types[t.Reference.Name]
		switch n.Kind {
		case "record":
			*out = append(*out, objRef{d, path, n.Name})
			for i, k := range d.Keys {
				if ft, ok := s.fieldType(n.Name, k); ok {
					s.objects(ft, d.Items[i], joinPath(path, k), out)
				}
			}
		case "standaloneUnion":
			for i, k := range d.Keys {
				for _, m := range n.Members {
					if m.Alias == k {
						s.objects(m.Type, d.Items[i], joinPath(path, k), out)
					}
				}
			}
		}
	}
}

func joinPath(p, k string) string {
	if p == "" {
		return k
	}
	return p + "." + k
}

func (s *Schema) fieldType(rec, field string) (RType, bool) {
	n := s.Types[rec]
	for _, inc := range n.Includes {
		if t, ok := s.fieldType(inc, field); ok {
			return t, true
		}
	}
	for _, f := range n.Fields {
		if f.Name == field {
			return f.Type, true
		}
	}
	return RType{}, false
}

func (s *Schema) requiredOf(rec string) []string {
	n := s.Types[rec]
	var out []string
	for _, inc := range n.Includes {
		out = append(out, s.requiredOf(inc)...)
	}
	for _, f := range n.Fields {
		if !f.IsOptional && f.DefaultValue == nil {
			out = append(out, f.Name)
		}
	}
	return out
}

// the property's own definition of the expected error: every required field, at any depth, that is absent or null,
// by its full path (independent of the library; arrays by index, maps by key, unions by alias, includes flattened)
func (s *Schema) missingSpec(t RType, d *Doc, path string, out *[]string) {
	switch {
	case t.Primitive != "":
	case t.Array != nil:
		if d == nil || d.Kind != "arr" {
			return
		}
		for i, x := range d.Items {
			s.missingSpec(*t.Array, x, fmt.Sprintf("%s[%d]", path, i), out)
		}
	case t.Map != nil:
		if d == nil || d.Kind != "obj" {
			return
		}
		for i, x := range d.Items {
			if x.Kind != "null" {
				s.missingSpec(*t.Map, x, joinPath(path, d.Keys[i]), out)
			}
		}
	default:
		n := s.Types[t.Reference.Name]
		switch n.Kind {
		case "record":
			present := map[string]*Doc{}
			if d != nil && d.Kind == "obj" {
				for i, k := range d.Keys {
					if d.Items[i].Kind != "null" {
						present[k] = d.Items[i]
					}
				}
			}
			for _, f := range s.requiredOf(n.Name) {
				if _, ok := present[f]; !ok {
					*out = append(*out, joinPath(path, f))
				}
			}
			for k, x := range present {
				if ft, ok := s.fieldType(n.Name, k); ok {
					s.missingSpec(ft, x, joinPath(path, k), out)
				}
			}
		case "standaloneUnion":
			if d == nil || d.Kind != "obj" {
				return
			}
			for i, k := range d.Keys {
				for _, m := range n.Members {
					if m.Alias == k && d.Items[i].Kind != "null" {
						s.missingSpec(m.Type, d.Items[i], joinPath(path, k), out)
					}
				}
			}
		}
	}
	sort.Strings(*out)
}
