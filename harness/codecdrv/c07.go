package main

import (
	"encoding/json"
	"fmt"
	"reflect"
	"strings"

	"github.com/PapaCharlie/go-restli/v2/restlicodec"
	"verifgen/hx"
)

// an independent reading of the property: a directive (slash separated, * = any one segment) equal to a prefix of the path
// excludes it; $set / $delete in the path are not counted
func specExcludes(directives []string, path []string) bool {
	var p []string
	for _, s := range path {
		if s != "$set" && s != "$delete" {
			p = append(p, s)
		}
	}
	for _, d := range directives {
		segs := strings.Split(strings.TrimPrefix(d, "/"), "/")
		if len(segs) > len(p) {
			continue
		}
		ok := true
		for i, s := range segs {
			if s != "*" && s != p[i] {
				ok = false
				break
			}
		}
		if ok {
			return true
		}
	}
	return false
}

// no directive is a strict prefix of another (NewPathSpec would turn the shorter one into an inner node)
func wellFormedDirectives(ds []string) bool {
	for i, a := range ds {
		for j, b := range ds {
			if i != j && (a == b || strings.HasPrefix(b, a+"/")) {
				return false
			}
		}
	}
	return true
}

func (s *Schema) randomPaths(r *hx.Rand, t RType, d *Doc) []string {
	var out []string
	var walk func(d *Doc, path []string)
	walk = func(d *Doc, path []string) {
		// directives END at a named field or map key: a directive ending at an array item ("a/*" with a an array) is a corner
		// the bindings never produce and the library treats inconsistently (items are not consulted, keys below them are):
		// left out of the generated specs and documented in DESIGN.md
		if len(path) > 0 && len(path) <= 4 && path[len(path)-1] != "*" {
			out = append(out, strings.Join(path, "/"))
		}
		switch d.Kind {
		case "obj":
			for i, k := range d.Keys {
				if !strings.ContainsAny(k, "/") && k != "" {
					walk(d.Items[i], append(append([]string{}, path...), k))
					if r.Chance(30) {
						walk(d.Items[i], append(append([]string{}, path...), "*"))
					}
				}
			}
		case "arr":
			for _, x := range d.Items {
				walk(x, append(append([]string{}, path...), "*"))
			}
		}
	}
	walk(d, nil)
	return out
}

// walk the reference document and the generic JSON the library produced: excluded paths absent, everything else present
func checkPruned(ref *Doc, got interface{}, directives []string, path []string) string {
	switch ref.Kind {
	case "obj":
		m, ok := got.(map[string]interface{})
		if !ok {
			return "not an object at /" + strings.Join(path, "/")
		}
		n := 0
		for i, k := range ref.Keys {
			p := append(append([]string{}, path...), k)
			if specExcludes(directives, p) {
				if _, present := m[k]; present {
					return "excluded value present at /" + strings.Join(p, "/")
				}
				continue
			}
			n++
			x, present := m[k]
			if !present {
				return "non-excluded value missing at /" + strings.Join(p, "/")
			}
			if e := checkPruned(ref.Items[i], x, directives, p); e != "" {
				return e
			}
		}
		if len(m) != n {
			return "extra entries at /" + strings.Join(path, "/")
		}
	case "arr":
		a, ok := got.([]interface{})
		if !ok || len(a) != len(ref.Items) {
			return "array differs at /" + strings.Join(path, "/")
		}
		for i, x := range ref.Items {
			if e := checkPruned(x, a[i], directives, append(append([]string{}, path...), "*")); e != "" {
				return e
			}
		}
	}
	return ""
}

// does the document carry a value at a path matched by the spec (after dropping `ignore` leading segments)?
func carriesExcluded(d *Doc, directives []string, ignore int, path []string) bool {
	if d.Kind == "null" {
		return false
	}
	if len(path) > ignore && len(path) > 0 && path[len(path)-1] != "*" || (len(path) > ignore && d.Kind != "") {
		if len(path) > ignore && specExcludes(directives, path[ignore:]) && path[len(path)-1] != "*" {
			return true
		}
	}
	switch d.Kind {
	case "obj":
		for i, k := range d.Keys {
			if carriesExcluded(d.Items[i], directives, ignore, append(append([]string{}, path...), k)) {
				return true
			}
		}
	case "arr":
		for _, x := range d.Items {
			if carriesExcluded(x, directives, ignore, append(append([]string{}, path...), "*")) {
				return true
			}
		}
	}
	return false
}

func runC07(cfg *hx.Config) {
	rep := hx.NewReport("exclusion specs (1-3 directives of depth <= 4 drawn from the paths that occur in the value: field names, map keys, wildcards; no directive a prefix of another) " +
		"x family values: writers constructed WithExcludedFields (compact JSON, pretty JSON, ROR2 header) and readers constructed WithExcludedFields (JSON, ROR2; leading scope 0-2). " +
		"non-trivial = the spec matches at least one path of the value; distinct by (type, spec, value)")
	sh := hx.NewShards(cfg.Out, header(), "CodecCorr", 60)
	r := hx.NewRand(cfg.Seed)
	n := 60
	if cfg.Thorough() {
		n = 1500
	}
	for _, tname := range recordTops {
		t := ref(tname)
		for i := 0; i < n; i++ {
			v := schema.gen(r, t, genOpts{utf8: true, depth: 1 + r.Intn(3)})
			base := schema.refEncode(t, v)
			paths := schema.randomPaths(r, t, base)
			var ds []string
			for k := 0; k < 1+r.Intn(3) && len(paths) > 0; k++ {
				d := paths[r.Intn(len(paths))]
				if r.Chance(15) {
					d = "/" + d
				}
				ds = append(ds, d)
			}
			if r.Chance(10) {
				ds = append(ds, "nosuchfield")
			}
			if !wellFormedDirectives(trimAll(ds)) || len(ds) == 0 {
				continue
			}
			spec := restlicodec.NewPathSpec(ds...)
			c := newCase("c07", tname, schema.coqTy(t))
			c.desc.Excl = ds
			ptr := reflect.New(registry[tname])
			schema.toGo(t, v, ptr.Elem())
			matched := false
			// writers
			for _, f := range []int{0, 1, 2} {
				out, oc := encode(ptr, f, spec)
				c.enc(f, v, oc, out)
				rep.Evaluations++
				if f == 0 && oc.Class == "ok" && base.jsonOK() {
					var got interface{}
					if err := json.Unmarshal([]byte(out), &got); err != nil {
						rep.Fail("exclude:writer-invalid-json", "writer with excluded fields produced invalid JSON", "v2/restlicodec/writer.go", map[string]interface{}{"type": tname, "spec": ds, "out": out}, err.Error())
					} else if e := checkPruned(base, got, trimAll(ds), nil); e != "" {
						rep.Fail("exclude:writer-not-exact", "the writer did not omit exactly the values at matching paths", "v2/restlicodec/writer.go:WriteMap", map[string]interface{}{"type": tname, "spec": ds, "value": v.fixJSON(), "out": out}, e)
					}
					full, _ := encode(ptr, 0, nil)
					matched = full != out
				}
			}
			// readers: the full document read with the spec
			for _, f := range []int{0, 2} {
				if f == 0 && !base.jsonOK() {
					continue
				}
				text := base.render(f, r, false)
				oc, got := decodeVal(tname, f, text, spec, 0)
				c.dec(f, text, oc, got)
				rep.Evaluations++
				want := carriesExcluded(base, trimAll(ds), 0, nil)
				cd := map[string]interface{}{"type": tname, "spec": ds, "document": text, "outcome": oc}
				if want && oc.Class != "excluded" {
					rep.Fail("exclude:reader-accepts:"+formats[f], "a document carrying a value at an excluded path is accepted", "v2/restlicodec/missing_fields.go:enterMapScope", cd, oc.Text)
				} else if !want && oc.Class == "excluded" {
					rep.Fail("exclude:reader-rejects:"+formats[f], "a document without any value at an excluded path is rejected", "v2/restlicodec/missing_fields.go:enterMapScope", cd, oc.Text)
				}
			}
			rep.Distinct(tname+strings.Join(ds, ",")+valKey(v), matched)
			rep.Count(fmt.Sprintf("directives=%d", len(ds)))
			rep.Count(fmt.Sprintf("matched=%v", matched))
			if matched {
				rep.Sample(c.describe())
			}
			sh.Add(c.coq(), c.describe())
		}
	}
	sh.Close()
	rep.Shards = sh.Files
	rep.Write(cfg.Out)
}

func trimAll(ds []string) []string {
	out := make([]string, len(ds))
	for i, d := range ds {
		out[i] = strings.TrimPrefix(d, "/")
	}
	return out
}
