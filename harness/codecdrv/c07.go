package main

import (
	"encoding/json"
	"fmt"
	"reflect"
	"strings"

	"github.com/PapaCharlie/go-restli/v2/restlicodec"
	"verifgen/hx"
)

// an independent reading of the property: a directive (slash separated, * = any one segment) equal to a prefix of the path
// excludes it; $set / $delete in the path are not counted
func specExcludes(directives []string, path []string) bool {
	var p []string
	for _, s := range path {
		if s != "$set" && s != "$delete" {
			p = append(p, s)
		}
	}
	for _, d := range directives {
		segs := strings.Split(strings.TrimPrefix(d, "/"), "/")
		if len(segs) > len(p) {
			continue
		}
		ok := true
		for i, s := range segs {
			if s != "*" && s != p[i] {
				ok = false
				break
			}
		}
		if ok {
			return true
		}
	}
	return false
}

// no directive is a strict prefix of another (NewPathSpec would turn the shorter one into an inner node)
func wellFormedDirectives(ds []string) bool {
	for i, a := range ds {
		for j, b := range ds {
			if i != j && (a == b || strings.HasPrefix(b, a+"/")) {
				return false
			}
		}
	}
	return true
}

func (s *Schema) randomPaths(r *hx.Rand, t RType, d *Doc) []string {
	var out []string
	var walk func(d *Doc, path []string)
	walk = func(d *Doc, path []string) {
		// directives END at a named field or map key: a directive ending at an array item ("a/*" with a an array) is a corner
		// the bindings never produce and the library treats inconsistently (items are not consulted, keys below them are):
		// left out of the generated specs and documented in DESIGN.md
		if len(path) > 0 && len(path) <= 4 && path[len(path)-1] != "*" {
			out = append(out, strings.Join(path, "/"))
		}
		switch d.Kind {
		case "obj":
			for i, k := range d.Keys {
				if !strings.ContainsAny(k, "/") && k != "" {
					walk(d.Items[i], append(append([]string{}, path...), k))
					if r.Chance(30) {
						walk(d.Items[i], append(append([]string{}, path...), "*"))
					}
				}
			}
		case "arr":
			for _, x := range d.Items {
				walk(x, append(append([]string{}, path...), "*"))
			}
		}
	}
	walk(d, nil)
	return out
}

// every path of the document that ends at an object key (array items are the segment "*"), as segments
func keyPaths(d *Doc) [][]string {
	var out [][]string
	var walk func(d *Doc, path []string)
	walk = func(d *Doc, path []string) {
		if len(path) > 0 && len(path) <= 5 && path[len(path)-1] != "*" {
			out = append(out, path)
		}
		switch d.Kind {
		case "obj":
			for i, k := range d.Keys {
				if !strings.ContainsAny(k, "/") && k != "" && k != "*" {
					walk(d.Items[i], append(append([]string{}, path...), k))
				}
			}
		case "arr":
			for _, x := range d.Items {
				walk(x, append(append([]string{}, path...), "*"))
			}
		}
	}
	walk(d, nil)
	return out
}

func segsEq(a, b []string) bool {
	if len(a) != len(b) {
		return false
	}
	for i := range a {
		if a[i] != b[i] {
			return false
		}
	}
	return true
}

// two directives that share a prefix and differ at ONE level by the wildcard versus a key that occurs in the value, with
// different tails below that level:   prefix/*/tailQ   and   prefix/k/tailP   (P = prefix/k/tailP and Q = prefix/k'/tailQ are
// paths of the value; k' may be k itself or a sibling).  Below k BOTH directives apply: a matcher that follows only the named
// branch (or only the wildcard) loses one of them.  Returned in random order; nil when the value has no such pair of paths.
func siblingDirectives(r *hx.Rand, paths [][]string) []string {
	if len(paths) == 0 {
		return nil
	}
	for try := 0; try < 30; try++ {
		P := paths[r.Intn(len(paths))]
		if len(P) < 2 {
			continue
		}
		lv := r.Intn(len(P) - 1)
		if P[lv] == "*" {
			continue
		}
		var cands [][]string
		for _, Q := range paths {
			if len(Q) > lv+1 && Q[lv] != "*" && segsEq(Q[:lv], P[:lv]) && !segsEq(Q[lv+1:], P[lv+1:]) {
				cands = append(cands, Q)
			}
		}
		if len(cands) == 0 {
			continue
		}
		Q := cands[r.Intn(len(cands))]
		wild := strings.Join(append(append(append([]string{}, P[:lv]...), "*"), Q[lv+1:]...), "/")
		named := strings.Join(P, "/")
		if r.Bool() {
			return []string{wild, named}
		}
		return []string{named, wild}
	}
	return nil
}

// the reference document without the values at paths the directives exclude (independent of the library's writers)
func pruneDoc(d *Doc, directives []string, path []string) *Doc {
	c := &Doc{Kind: d.Kind, Z: d.Z, Bits: d.Bits, B: d.B, S: d.S}
	switch d.Kind {
	case "obj":
		for i, k := range d.Keys {
			p := append(append([]string{}, path...), k)
			if specExcludes(directives, p) {
				continue
			}
			c.Keys = append(c.Keys, k)
			c.Items = append(c.Items, pruneDoc(d.Items[i], directives, p))
		}
	case "arr":
		for _, x := range d.Items {
			c.Items = append(c.Items, pruneDoc(x, directives, append(append([]string{}, path...), "*")))
		}
	}
	return c
}

// does a directive, read from the ROOT of a default literal of the schema, match a key inside that literal?  The generated
// populateLocalDefaultValues re-parses default literals with a reader WITHOUT excluded fields; the model (Codec/Decode.v
// lit_value) re-parses them inside the section that fixes the spec, so there a spec such as `a` next to the default {"a":7}
// suppresses the default.  Known inaccuracy of the model in this corner: the documents that omit fields (so that defaults are
// filled) are then judged by the Go oracle only, not added to the model's case.
func specHitsDefaultLiteral(tname string, directives []string) bool {
	hit := false
	reach := map[string]bool{}
	var visitT func(t RType)
	var visit func(name string)
	visitT = func(t RType) {
		switch {
		case t.Array != nil:
			visitT(*t.Array)
		case t.Map != nil:
			visitT(*t.Map)
		case t.Reference != nil:
			visit(t.Reference.Name)
		}
	}
	visit = func(name string) {
		n := schema.Types[name]
		if n == nil || reach[name] {
			return
		}
		reach[name] = true
		for _, inc := range n.Includes {
			visit(inc)
		}
		for _, f := range n.Fields {
			visitT(f.Type)
		}
		for _, m := range n.Members {
			visitT(m.Type)
		}
	}
	visit(tname)
	var walk func(x interface{}, path []string)
	walk = func(x interface{}, path []string) {
		switch y := x.(type) {
		case map[string]interface{}:
			for k, z := range y {
				p := append(append([]string{}, path...), k)
				if specExcludes(directives, p) {
					hit = true
				}
				walk(z, p)
			}
		case []interface{}:
			for _, z := range y {
				walk(z, append(append([]string{}, path...), "*"))
			}
		}
	}
	for name, n := range schema.Types {
		for _, f := range n.Fields {
			if f.DefaultValue != nil && reach[name] {
				var x interface{}
				if json.Unmarshal([]byte(*f.DefaultValue), &x) == nil {
					walk(x, nil)
				}
			}
		}
	}
	return hit
}

// walk the reference document and the generic JSON the library produced: excluded paths absent, everything else present
func checkPruned(ref *Doc, got interface{}, directives []string, path []string) string {
	switch ref.Kind {
	case "obj":
		m, ok := got.(map[string]interface{})
		if !ok {
			return "not an object at /" + strings.Join(path, "/")
		}
		n := 0
		for i, k := range ref.Keys {
			p := append(append([]string{}, path...), k)
			if specExcludes(directives, p) {
				if _, present := m[k]; present {
					return "excluded value present at /" + strings.Join(p, "/")
				}
				continue
			}
			n++
			x, present := m[k]
			if !present {
				return "non-excluded value missing at /" + strings.Join(p, "/")
			}
			if e := checkPruned(ref.Items[i], x, directives, p); e != "" {
				return e
			}
		}
		if len(m) != n {
			return "extra entries at /" + strings.Join(path, "/")
		}
	case "arr":
		a, ok := got.([]interface{})
		if !ok || len(a) != len(ref.Items) {
			return "array differs at /" + strings.Join(path, "/")
		}
		for i, x := range ref.Items {
			if e := checkPruned(x, a[i], directives, append(append([]string{}, path...), "*")); e != "" {
				return e
			}
		}
	}
	return ""
}

// does the document carry a value at a path matched by the spec (after dropping `ignore` leading segments)?
func carriesExcluded(d *Doc, directives []string, ignore int, path []string) bool {
	if d.Kind == "null" {
		return false
	}
	if len(path) > ignore && len(path) > 0 && path[len(path)-1] != "*" || (len(path) > ignore && d.Kind != "") {
		if len(path) > ignore && specExcludes(directives, path[ignore:]) && path[len(path)-1] != "*" {
			return true
		}
	}
	switch d.Kind {
	case "obj":
		for i, k := range d.Keys {
			if carriesExcluded(d.Items[i], directives, ignore, append(append([]string{}, path...), k)) {
				return true
			}
		}
	case "arr":
		for _, x := range d.Items {
			if carriesExcluded(x, directives, ignore, append(append([]string{}, path...), "*")) {
				return true
			}
		}
	}
	return false
}

func runC07(cfg *hx.Config) {
	rep := hx.NewReport("exclusion specs (1-3 directives of depth <= 4 drawn from the paths that occur in the value: field names, map keys, wildcards; no directive a prefix of another; " +
		"every second spec holds a wildcard directive and a named directive that share their prefix and differ at one level by `*` versus a key of the value, with different tails, in both orders) " +
		"x family values: writers constructed WithExcludedFields (compact JSON, pretty JSON, ROR2 header) and readers constructed WithExcludedFields (JSON, ROR2) applied to the full " +
		"document (must be rejected iff it carries a value at an excluded path) to the writer's own pruned output (must not be rejected, no excluded field reported missing) and, for specs with several directives, to the document pruned by all " +
		"directives but one (must be rejected iff that one still matches). " +
		"non-trivial = the spec matches at least one path of the value; distinct by (type, spec, value)")
	sh := hx.NewShards(cfg.Out, header(), "CodecCorr", 60)
	r := hx.NewRand(cfg.Seed)
	n := 50
	if cfg.Thorough() {
		n = 1500
	}
	for _, tname := range append(append([]string{}, recordTops...), "ONest", "ONest") {
		t := ref(tname)
		for i := 0; i < n; i++ {
			v := schema.gen(r, t, genOpts{utf8: true, depth: 1 + r.Intn(3)})
			base := schema.refEncode(t, v)
			paths := schema.randomPaths(r, t, base)
			var ds []string
			shape := "random"
			if i%2 == 1 {
				// every second spec: a wildcard directive and a named directive side by side (both orders), plus at most one more
				ds = siblingDirectives(r, keyPaths(base))
				if ds != nil {
					shape = "wildcard+named-siblings"
					if r.Chance(30) && len(paths) > 0 {
						ds = append(ds, paths[r.Intn(len(paths))])
					}
				}
			}
			for k := 0; ds == nil && k < 1+r.Intn(3) && len(paths) > 0; k++ {
				d := paths[r.Intn(len(paths))]
				if r.Chance(15) {
					d = "/" + d
				}
				ds = append(ds, d)
			}
			if r.Chance(10) {
				ds = append(ds, "nosuchfield")
			}
			if !wellFormedDirectives(trimAll(ds)) || len(ds) == 0 {
				continue
			}
			spec := restlicodec.NewPathSpec(ds...)
			c := newCase("c07", tname, schema.coqTy(t))
			c.desc.Excl = ds
			ptr := reflect.New(registry[tname])
			schema.toGo(t, v, ptr.Elem())
			matched := false
			modelSeesOmissions := true // the model decodes default literals without the reader's spec, as the generated code does
			_ = specHitsDefaultLiteral
			if !modelSeesOmissions {
				rep.Count("model-corner=spec-matches-inside-a-default-literal")
			}
			var pruned [3]struct{ out, cls string }
			// writers
			for _, f := range []int{0, 1, 2} {
				out, oc := encode(ptr, f, spec)
				c.enc(f, v, oc, out)
				pruned[f].out, pruned[f].cls = out, oc.Class
				rep.Evaluations++
				if f == 0 && oc.Class == "ok" && base.jsonOK() {
					var got interface{}
					if err := json.Unmarshal([]byte(out), &got); err != nil {
						rep.Fail("exclude:writer-invalid-json", "writer with excluded fields produced invalid JSON", "v2/restlicodec/writer.go", map[string]interface{}{"type": tname, "spec": ds, "out": out}, err.Error())
					} else if e := checkPruned(base, got, trimAll(ds), nil); e != "" {
						rep.Fail("exclude:writer-not-exact", "the writer did not omit exactly the values at matching paths", "v2/restlicodec/writer.go:WriteMap", map[string]interface{}{"type": tname, "spec": ds, "value": v.fixJSON(), "out": out}, e)
					}
					full, _ := encode(ptr, 0, nil)
					matched = full != out
				}
			}
			// readers: the full document read with the spec
			for _, f := range []int{0, 2} {
				if f == 0 && !base.jsonOK() {
					continue
				}
				text := base.render(f, r, false)
				oc, got := decodeVal(tname, f, text, spec, 0)
				c.dec(f, text, oc, got)
				rep.Evaluations++
				want := carriesExcluded(base, trimAll(ds), 0, nil)
				cd := map[string]interface{}{"type": tname, "spec": ds, "document": text, "outcome": oc}
				if want && oc.Class != "excluded" {
					rep.Fail("exclude:reader-accepts:"+formats[f], "a document carrying a value at an excluded path is accepted", "v2/restlicodec/missing_fields.go:enterMapScope", cd, oc.Text)
				} else if !want && oc.Class == "excluded" {
					rep.Fail("exclude:reader-rejects:"+formats[f], "a document without any value at an excluded path is rejected", "v2/restlicodec/missing_fields.go:enterMapScope", cd, oc.Text)
				}
			}
			// readers: the writer's own output (everything at an excluded path omitted - required fields included) read with the
			// same spec: nothing excluded is carried, and an excluded required field that is absent is not missing
			for _, f := range []int{0, 2} {
				if pruned[f].cls != "ok" {
					continue
				}
				oc, got := decodeVal(tname, f, pruned[f].out, spec, 0)
				if modelSeesOmissions && f == []int{0, 2}[i%2] {
					// one of the two formats also becomes an operation of the model's case (the oracle judges both)
					c.dec(f, pruned[f].out, oc, got)
				}
				rep.Evaluations++
				cd := map[string]interface{}{"type": tname, "spec": ds, "document": pruned[f].out, "outcome": oc, "value": v.fixJSON()}
				if oc.Class == "excluded" {
					rep.Fail("exclude:reader-rejects:"+formats[f], "a document without any value at an excluded path is rejected", "v2/restlicodec/missing_fields.go:enterMapScope", cd, oc.Text)
				} else if oc.Class == "missing" {
					// the value is complete: whatever the document lacks was omitted because the spec excludes it
					rep.Fail("exclude:reader-reports-excluded-missing:"+formats[f], "a required field at an excluded path, absent from the document, is reported missing",
						"v2/restlicodec/missing_fields.go:recordMissingRequiredFields", cd, oc.Fields)
				}
			}
			// readers: for every directive d of a spec with several, the document pruned by all directives BUT d (reference
			// pruning and rendering), read with the whole spec: it must be rejected iff it still carries a value that d excludes -
			// each directive must keep its force next to the others, whatever their order and shape
			if tds := trimAll(ds); len(tds) >= 2 {
				for j := range tds {
					others := append(append([]string{}, tds[:j]...), tds[j+1:]...)
					part := pruneDoc(base, others, nil)
					want := carriesExcluded(part, tds, 0, nil)
					fm := []int{0, 2}[(i+j)%2] // the format that also becomes an operation of the model's case
					for _, f := range []int{0, 2} {
						text := part.render(f, r, false)
						oc, got := decodeVal(tname, f, text, spec, 0)
						if f == fm && modelSeesOmissions {
							c.dec(f, text, oc, got)
						}
						rep.Evaluations++
						cd := map[string]interface{}{"type": tname, "spec": ds, "document": text, "outcome": oc, "kept_directive": tds[j]}
						if oc.Class == "err" {
							// pruning can leave an illegal document behind (a union without its member): when the document is rejected
							// without any spec too, that rejection says nothing about the spec (the model still sees the operation)
							if plain, _ := decodeVal(tname, f, text, nil, 0); plain.Class == "err" {
								rep.Count("partly-pruned=illegal-by-itself")
								continue
							}
						}
						if want && oc.Class != "excluded" {
							rep.Fail("exclude:reader-accepts:"+formats[f], "a document carrying a value at an excluded path is accepted", "v2/restlicodec/missing_fields.go:enterMapScope", cd, oc.Text)
						} else if !want && oc.Class == "excluded" {
							rep.Fail("exclude:reader-rejects:"+formats[f], "a document without any value at an excluded path is rejected", "v2/restlicodec/missing_fields.go:enterMapScope", cd, oc.Text)
						} else if !want && oc.Class == "missing" {
							rep.Fail("exclude:reader-reports-excluded-missing:"+formats[f], "a required field at an excluded path, absent from the document, is reported missing",
								"v2/restlicodec/missing_fields.go:recordMissingRequiredFields", cd, oc.Fields)
						}
						if want {
							rep.Count("partly-pruned=carries-excluded")
						} else {
							rep.Count("partly-pruned=clean")
						}
					}
				}
			}
			rep.Distinct(tname+strings.Join(ds, ",")+valKey(v), matched)
			rep.Count("spec=" + shape)
			rep.Count(fmt.Sprintf("directives=%d", len(ds)))
			rep.Count(fmt.Sprintf("matched=%v", matched))
			if matched {
				rep.Sample(c.describe())
			}
			sh.Add(c.coq(), c.describe())
		}
	}
	sh.Close()
	rep.Shards = sh.Files
	rep.Write(cfg.Out)
}

func trimAll(ds []string) []string {
	out := make([]string, len(ds))
	for i, d := range ds {
		out[i] = strings.TrimPrefix(d, "/")
	}
	return out
}
