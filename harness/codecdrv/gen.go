package main

import (
	"strings"
	"math"

	"verifgen/hx"
)

// ---- seeded structured value generation
var metaStrings = []string{"(", ")", ",", ":", "'", "%", "+", " ", "\"", "\\", "/", "&", "=", "?", "#", ";", ".", "..", "*", "!", "$", "@", "~",
	"-", "_", "''", "List(", "List()", "()", "(a:1)", "%41", "%zz", "a b", "a+b", "\n", "\r\n", "\t", "\x00", "\x01", "\x1f", "\x7f",
	"é", "€", " ", " ", "😀", "ÿ", "Ā", "<", ">", "&amp;", "{", "}", "[", "]", "|", "^", "`", "null", "true", "1e+06", "$set", "$delete", "*"}

func genString(r *hx.Rand, validUtf8 bool) string {
	switch r.Intn(12) {
	case 0:
		return ""
	case 1, 2, 3:
		return metaStrings[r.Intn(len(metaStrings))]
	case 4, 5:
		n := 1 + r.Intn(4)
		s := ""
		for i := 0; i < n; i++ {
			s += metaStrings[r.Intn(len(metaStrings))]
		}
		return s
	case 6, 7:
		n := 1 + r.Intn(6)
		b := make([]byte, n)
		for i := range b {
			b[i] = "abcXYZ019_"[r.Intn(10)]
		}
		return string(b)
	case 8:
		if validUtf8 {
			rs := make([]rune, 1+r.Intn(3))
			for i := range rs {
				switch r.Intn(4) {
				case 0:
					rs[i] = rune(r.Intn(0x80))
				case 1:
					rs[i] = rune(0x80 + r.Intn(0x780))
				case 2:
					rs[i] = rune(0x800 + r.Intn(0xD000-0x800))
				default:
					rs[i] = rune(0x10000 + r.Intn(0x10000))
				}
			}
			return string(rs)
		}
		fallthrough
	default:
		n := 1 + r.Intn(5)
		b := make([]byte, n)
		for i := range b {
			if validUtf8 {
				b[i] = byte(r.Intn(128))
			} else {
				b[i] = byte(r.Intn(256))
			}
		}
		return string(b)
	}
}

func genBytes(r *hx.Rand) string {
	switch r.Intn(6) {
	case 0:
		return ""
	case 1:
		return metaStrings[r.Intn(len(metaStrings))]
	default:
		n := 1 + r.Intn(6)
		b := make([]byte, n)
		for i := range b {
			b[i] = byte(r.Intn(256))
		}
		return string(b)
	}
}

var i32s = []int64{0, 1, -1, 2147483647, -2147483648, 42, 1000000, -999}
var i64s = []int64{0, 1, -1, 9223372036854775807, -9223372036854775808, 2147483648, -2147483649, 1 << 53, 1e18}
var f64s = []float64{0, math.Copysign(0, -1), 1, -1, 0.1, 1.5, 1e6, 1e-7, 9.999999e-8, 1e20, 1e21, 9.99999e20, 1.2e21, 1e22, 1e-6, 123456789.125,
	math.MaxFloat64, -math.MaxFloat64, math.SmallestNonzeroFloat64, math.Inf(1), math.Inf(-1), math.NaN(), 1e100, 1e-100, 5e-324, 2.2250738585072014e-308, 100000, 1e+21, 3.4028234663852886e+38}
var f32s = []float32{0, float32(math.Copysign(0, -1)), 1, -1, 0.1, 1.5, 1e6, 1e-7, 1e20, 1e21, 1e22, math.MaxFloat32, math.SmallestNonzeroFloat32,
	float32(math.Inf(1)), float32(math.Inf(-1)), float32(math.NaN()), 16777216, 3.4e38, 1e-45,
	// shortest float32 text differs from the text of the widened float64 (0.3 vs 0.30000001192092896 ...)
	0.2, 0.3, -0.7, 1.1, 3.14159274, 1.0 / 3, 123456.79, 9.999999e-8, 9.999999e20, 1.0000001e21, 6.02214076e23, 1e-10, 2.5e-38,
	// neighbours of 2^24 (the last odd integer / first gap of two), of 2^31 and 2^63, the largest below 1, the smallest above 1
	16777215, 16777218, 16777220, 8388607.5, 2147483520, 2147483648, 9223371487098961920, 0.99999994, 1.0000001,
	// -MaxFloat32, the value below MaxFloat32, smallest normal, largest subnormal, a mid subnormal
	-math.MaxFloat32, 3.4028233e38, 1.1754944e-38, 1.1754942e-38, 4.2e-42, -1e-45,
	// double-rounding witnesses: float32 values whose shortest float32 text, read as a float64 and then narrowed (what a JSON
	// reader that parses numbers as float64 does), lands on the NEIGHBOUR (the text is within 2^-54 of the midpoint of two
	// float32 values).  An exhaustive search over the 2^32 bit patterns finds exactly these two; c01CheckFloatPools re-derives
	// the class membership with strconv on every run
	math.Float32frombits(0x15ae43fd), math.Float32frombits(0x95ae43fd)}

func genPrim(r *hx.Rand, p string, utf8 bool) *Val {
	switch p {
	case "int32":
		if r.Chance(60) {
			return &Val{K: "int", Z: i32s[r.Intn(len(i32s))]}
		}
		return &Val{K: "int", Z: int64(int32(r.U64()))}
	case "int64":
		if r.Chance(60) {
			return &Val{K: "long", Z: i64s[r.Intn(len(i64s))]}
		}
		return &Val{K: "long", Z: int64(r.U64())}
	case "float32":
		if r.Chance(70) {
			return &Val{K: "float", Bits: uint64(math.Float32bits(f32s[r.Intn(len(f32s))]))}
		}
		return &Val{K: "float", Bits: uint64(uint32(r.U64()))}
	case "float64":
		if r.Chance(70) {
			return &Val{K: "double", Bits: math.Float64bits(f64s[r.Intn(len(f64s))])}
		}
		return &Val{K: "double", Bits: r.U64()}
	case "bool":
		return &Val{K: "bool", B: r.Bool()}
	case "string":
		return &Val{K: "str", S: genString(r, utf8)}
	case "bytes":
		return &Val{K: "bytes", S: genBytes(r), NilColl: r.Bool()}
	}
	panic(p)
}

type genOpts struct {
	utf8    bool // strings and map keys are valid UTF-8
	invalid bool // allow constraint violations (union member count, enum constants)
	depth   int
}

func (s *Schema) gen(r *hx.Rand, t RType, o genOpts) *Val {
	switch {
	case t.Primitive != "":
		return genPrim(r, t.Primitive, o.utf8)
	case t.Array != nil:
		n := r.Intn(4)
		if o.depth <= 0 {
			n = r.Intn(2)
		}
		v := &Val{K: "arr", NilColl: r.Bool()}
		o.depth--
		for i := 0; i < n; i++ {
			v.Items = append(v.Items, s.gen(r, *t.Array, o))
		}
		return v
	case t.Map != nil:
		n := r.Intn(4)
		if o.depth <= 0 {
			n = r.Intn(2)
		}
		v := &Val{K: "map", NilColl: r.Bool()}
		o.depth--
		seen := map[string]bool{}
		for i := 0; i < n; i++ {
			k := genString(r, o.utf8)
			if seen[k] {
				continue
			}
			seen[k] = true
			v.Keys = append(v.Keys, k)
			v.Items = append(v.Items, s.gen(r, *t.Map, o))
			// next to an entry k of a map of records, sometimes an entry whose KEY spells a path below k ("k/<field>"): the two
			// have different scopes (one key vs key + field) although their joined texts coincide
			if t.Map.Reference != nil && r.Chance(25) && !strings.Contains(k, "/") {
				if n := s.Types[t.Map.Reference.Name]; n != nil && n.Kind == "record" && len(n.Fields) > 0 {
					k2 := k + "/" + n.Fields[r.Intn(len(n.Fields))].Name
					if !seen[k2] {
						seen[k2] = true
						v.Keys = append(v.Keys, k2)
						v.Items = append(v.Items, s.gen(r, *t.Map, o))
					}
				}
			}
		}
		return v
	}
	n := s.Types[t.Reference.Name]
	switch n.Kind {
	case "enum":
		k := int64(1 + r.Intn(len(n.Symbols)))
		if o.invalid && r.Chance(30) {
			k = []int64{0, -1, int64(len(n.Symbols)) + 1, 77}[r.Intn(4)]
		}
		return &Val{K: "enum", Z: k}
	case "fixed":
		b := make([]byte, n.Size)
		for i := range b {
			if r.Chance(50) {
				b[i] = byte(r.Intn(256))
			} else {
				b[i] = "a(%'\x00\xff\x80,"[r.Intn(8)]
			}
		}
		return &Val{K: "fixed", S: string(b)}
	case "typeref":
		return genPrim(r, n.Prim, o.utf8)
	case "record":
		v := &Val{K: "rec"}
		o.depth--
		for _, inc := range n.Includes {
			v.Incs = append(v.Incs, s.gen(r, ref(inc), o))
		}
		for _, f := range n.Fields {
			optional := f.IsOptional || f.DefaultValue != nil
			if optional && (o.depth < 0 || r.Chance(40)) {
				v.Fields = append(v.Fields, nil)
			} else {
				v.Fields = append(v.Fields, s.gen(r, f.Type, o))
			}
		}
		return v
	case "standaloneUnion":
		v := &Val{K: "union", Fields: make([]*Val, len(n.Members))}
		o.depth--
		if o.invalid && r.Chance(40) {
			// any subset
			for i, m := range n.Members {
				if r.Chance(35) {
					v.Fields[i] = s.gen(r, m.Type, o)
				}
			}
			return v
		}
		if n.HasNull && r.Chance(20) {
			return v
		}
		i := r.Intn(len(n.Members))
		if o.depth < 0 {
			i = 0
		}
		v.Fields[i] = s.gen(r, n.Members[i].Type, o)
		return v
	}
	panic("gen kind " + n.Kind)
}

// validity per the schema constraints (C11): exactly one union member (at most one if nullable), known enum constant
func (s *Schema) valid(t RType, v *Val) bool {
	if v == nil {
		return true
	}
	switch {
	case t.Primitive != "":
		return true
	case t.Array != nil:
		for _, x := range v.Items {
			if !s.valid(*t.Array, x) {
				return false
			}
		}
		return true
	case t.Map != nil:
		for _, x := range v.Items {
			if !s.valid(*t.Map, x) {
				return false
			}
		}
		return true
	}
	n := s.Types[t.Reference.Name]
	switch n.Kind {
	case "enum":
		return v.Z >= 1 && v.Z <= int64(len(n.Symbols))
	case "record":
		for i, inc := range n.Includes {
			if !s.valid(ref(inc), v.Incs[i]) {
				return false
			}
		}
		for i, f := range n.Fields {
			if !s.valid(f.Type, v.Fields[i]) {
				return false
			}
		}
		return true
	case "standaloneUnion":
		cnt := 0
		for i, m := range n.Members {
			if v.Fields[i] != nil {
				cnt++
				if !s.valid(m.Type, v.Fields[i]) {
					return false
				}
			}
		}
		return cnt == 1 || (n.HasNull && cnt == 0)
	}
	return true
}

// validity of what is actually serialised under an exclusion spec: an excluded field (or member) is never written, so its
// content cannot make the emitted document illegal
func (s *Schema) validUnder(t RType, v *Val, directives []string, path []string) bool {
	if v == nil {
		return true
	}
	sub := func(seg string) []string { return append(append([]string{}, path...), seg) }
	switch {
	case t.Primitive != "":
		return true
	case t.Array != nil:
		for _, x := range v.Items {
			if !s.validUnder(*t.Array, x, directives, sub("*")) {
				return false
			}
		}
		return true
	case t.Map != nil:
		for i, x := range v.Items {
			if specExcludes(directives, sub(v.Keys[i])) {
				continue
			}
			if !s.validUnder(*t.Map, x, directives, sub(v.Keys[i])) {
				return false
			}
		}
		return true
	}
	n := s.Types[t.Reference.Name]
	switch n.Kind {
	case "record":
		for i, inc := range n.Includes {
			if !s.validUnder(ref(inc), v.Incs[i], directives, path) {
				return false
			}
		}
		for i, f := range n.Fields {
			if specExcludes(directives, sub(f.Name)) {
				continue
			}
			if !s.validUnder(f.Type, v.Fields[i], directives, sub(f.Name)) {
				return false
			}
		}
		return true
	case "standaloneUnion":
		cnt := 0
		for i, m := range n.Members {
			if v.Fields[i] != nil {
				cnt++
				if specExcludes(directives, sub(m.Alias)) {
					continue
				}
				if !s.validUnder(m.Type, v.Fields[i], directives, sub(m.Alias)) {
					return false
				}
			}
		}
		return cnt == 1 || (n.HasNull && cnt == 0)
	}
	return s.valid(t, v)
}

func (v *Val) hasNaN() bool {
	if v == nil {
		return false
	}
	switch v.K {
	case "float":
		f := math.Float32frombits(uint32(v.Bits))
		return f != f
	case "double":
		f := math.Float64frombits(v.Bits)
		return f != f
	}
	for _, l := range [][]*Val{v.Incs, v.Fields, v.Items} {
		for _, x := range l {
			if x.hasNaN() {
				return true
			}
		}
	}
	return false
}

// the strings of the value (values and map keys), for classification and non-triviality
func (v *Val) strings(out *[]string) {
	if v == nil {
		return
	}
	if v.K == "str" || v.K == "bytes" || v.K == "fixed" {
		*out = append(*out, v.S)
	}
	*out = append(*out, v.Keys...)
	for _, l := range [][]*Val{v.Incs, v.Fields, v.Items} {
		for _, x := range l {
			x.strings(out)
		}
	}
}

// strings and map keys only (no bytes / fixed)
func (v *Val) textStrings(out *[]string) {
	if v == nil {
		return
	}
	if v.K == "str" {
		*out = append(*out, v.S)
	}
	*out = append(*out, v.Keys...)
	for _, l := range [][]*Val{v.Incs, v.Fields, v.Items} {
		for _, x := range l {
			x.textStrings(out)
		}
	}
}
