package main

// the correspondence glue the constructor cases of mode c13 are written for (v2 module): Corr/CtorCorr.v evaluates Codec/Ctor.v on
// Gen/FamEnv.v.  The root driver has its own copy of this function (harness/rootdrv/root_ctor.go: Corr/RootCtorCorr.v).
func ctorCorr() (header, module string) {
	return "From Coq Require Import List ZArith NArith. Import ListNotations.\nFrom Coq.Strings Require Import Byte.\n" +
		"From GR Require Import Base.Bytes Base.Res Codec.Schema Gen.FamEnv Corr.CtorCorr.\n", "CtorCorr"
}
