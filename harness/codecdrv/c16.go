package main

// C16: batch key sets and the re-keying of batch responses.  The REAL batchkeyset API (NewBatchKeySet / AddKey / AddAllKeys /
// LocateOriginalKey / EncodeQueryParams) and the REAL BatchResponse.UnmarshalWithKeyLocator are driven with key multisets of every
// key type (primitives, typerefs, enum, fixed, a record, the complex key with and without params, bytes) including keys whose
// hashes COLLIDE (found by a birthday search over the real hash functions at start-up, plus a fixed corpus), keys equal up to
// complex-key params, keys that differ only in characters the ROR2 escapers treat specially, and with hand-built JSON replies
// (all keys, subset, split over the three maps, re-encoded keys, unknown key, undecodable key, undecodable value).
// Observables: which AddKey fails; the ids parameter; LocateOriginalKey's result (pointer identity for pointer keys); error / no
// error of the unmarshalling and the keys (identity) + payload tags of the three maps.
//
// BULK entry points.  Every key list is also handed, WHOLE, to every function that builds a key set from a caller's collection:
// batchkeyset.AddAllKeys on a set of each constructor (NewBatchKeySet and the typed NewPrimitive/Simple/Complex/BytesKeySet), in one
// call and split over two; batchkeyset.AddAllMapKeys; and the client functions restli.BatchGet / BatchDelete (slice) and
// BatchUpdate / BatchPartialUpdate (map) on a real *restli.Client whose transport counts the requests.  Expected of each: rejected -
// with nothing sent - iff two keys of the list are key-equal, wherever the two stand; otherwise one request whose ids parameter names
// every key once.  Lists with a duplicate pair at every pair of positions (first/middle/last, followed or not by further keys) are
// generated for every key type (c16DupLists).

import (
	"math/big"
	"context"
	"encoding/json"
	"fmt"
	"io"
	"math"
	"net/http"
	"net/url"
	"os"
	"reflect"
	"sort"
	"strings"

	"github.com/PapaCharlie/go-restli/v2/fnv1a"
	"github.com/PapaCharlie/go-restli/v2/restli"
	"github.com/PapaCharlie/go-restli/v2/restli/batchkeyset"
	"github.com/PapaCharlie/go-restli/v2/restlicodec"
	"github.com/PapaCharlie/go-restli/v2/restlidata/generated/com/linkedin/restli/common"
	"verifgen/gen/fam"
	"verifgen/hx"
)

// ---- key types
type c16Key[K any] struct {
	name  string
	t     RType
	kind  int // 0 generic set on ComputeHash/Equals (or HashBytes/equals.Bytes); 1 complex key; 2 primitive set
	build func(v *Val) K
	back  func(k K) *Val
	hash  func(k K) uint32 // the hash the set uses (for the collision search); nil for primitive sets
	ptr   bool
	ctor  func() batchkeyset.BatchKeySet[K] // the typed constructor of the key kind (NewPrimitiveKeySet / NewSimpleKeySet / ...)
	cname string
}

func (kt c16Key[K]) with(cname string, ctor func() batchkeyset.BatchKeySet[K]) c16Key[K] {
	kt.cname, kt.ctor = cname, ctor
	return kt
}

func c16Generated[K any](name string, kind int) c16Key[K] {
	T := registry[name]
	var zero K
	ptr := reflect.TypeOf(zero).Kind() == reflect.Ptr
	kt := c16Key[K]{name: name, t: ref(name), kind: kind, ptr: ptr}
	kt.build = func(v *Val) K {
		p := reflect.New(T)
		schema.toGo(kt.t, v, p.Elem())
		if ptr {
			return p.Interface().(K)
		}
		return p.Elem().Interface().(K)
	}
	kt.back = func(k K) *Val { return schema.fromGo(kt.t, reflect.ValueOf(k)) }
	kt.hash = func(k K) uint32 {
		if kind == 1 {
			return uint32(any(k).(interface{ ComputeComplexKeyHash() fnv1a.Hash }).ComputeComplexKeyHash().MapKey())
		}
		return uint32(any(k).(fnv1a.Hashable).ComputeHash().MapKey())
	}
	return kt
}

func c16Prim[K any](p string) c16Key[K] {
	kt := c16Key[K]{name: p, t: RType{Primitive: p}, kind: 2}
	var zero K
	T := reflect.TypeOf(zero)
	kt.build = func(v *Val) K {
		x := reflect.New(T)
		setPrim(p, v, x.Elem())
		return x.Elem().Interface().(K)
	}
	kt.back = func(k K) *Val { return getPrim(p, reflect.ValueOf(k)) }
	if p == "bytes" {
		kt.kind = 0
		kt.hash = func(k K) uint32 { return uint32(fnv1a.HashBytes(any(k).([]byte)).MapKey()) }
	}
	return kt
}

// the part of a key that key equality looks at
func (kt c16Key[K]) part(v *Val) (RType, *Val) {
	if kt.kind == 1 {
		return ref(schema.Types[kt.name].Includes[0]), v.Incs[0]
	}
	return kt.t, v
}
func (kt c16Key[K]) keyEq(a, b *Val) bool {
	t, pa := kt.part(a)
	_, pb := kt.part(b)
	return c10RefEq(t, pa, pb)
}

// ---- key generation
var c16Strings = []string{"", "a", "a b", "a+b", "a%20b", "a%2Bb", "(", ")", "a,b", "a:b", "'", "''", "%", "%25", "%2", "List(", "List()", "(a:1)", "é", "é", "\"", "\\", "/", "&", "=", "?", "#", "A", "~", "$params", ".", ".."}

func c16Gen[K any](kt c16Key[K], r *hx.Rand) *Val {
	o := genOpts{utf8: true, depth: 1}
	switch kt.name {
	case "string", "Tstr":
		if r.Chance(70) {
			return &Val{K: "str", S: c16Strings[r.Intn(len(c16Strings))]}
		}
	case "CK", "Inner":
		inner := func() *Val {
			v := &Val{K: "rec", Fields: []*Val{{K: "int", Z: []int64{0, 1, -1, 7, 2147483647}[r.Intn(5)]}, nil}}
			if r.Chance(50) {
				v.Fields[1] = &Val{K: "str", S: c16Strings[r.Intn(len(c16Strings))]}
			}
			return v
		}
		if kt.name == "Inner" {
			return inner()
		}
		v := &Val{K: "rec", Incs: []*Val{inner()}, Fields: []*Val{nil}}
		if r.Chance(60) {
			v.Fields[0] = inner()
		}
		return v
	case "Fx4":
		// ASCII only: a header-encoded key keeps bytes >= 0x80 raw, which cannot be carried by a JSON object key (JSON layer, not C16)
		b := make([]byte, 4)
		for i := range b {
			pool := "ab(),:'%+ \x00\x7f01"
			b[i] = pool[r.Intn(len(pool))]
		}
		return &Val{K: "fixed", S: string(b)}
	case "bool":
		return &Val{K: "bool", B: r.Bool()}
	case "Color":
		return &Val{K: "enum", Z: int64(1 + r.Intn(3))}
	}
	v := schema.gen(r, kt.t, o)
	if kt.name == "bytes" {
		v.NilColl = false
	}
	return v
}

// keys that are not equal but hash alike under the set's hash: birthday search on the REAL hash, seeded
func c16Collisions[K any](kt c16Key[K], r *hx.Rand, n, want int) [][2]*Val {
	if kt.hash == nil {
		return nil
	}
	var out [][2]*Val
	// the fixed corpus first (kept when it still collides under the current hash)
	var corpus [][2]*Val
	switch kt.name {
	case "Tlong":
		for _, c := range c16CorpusTlong {
			corpus = append(corpus, [2]*Val{{K: "long", Z: c[0]}, {K: "long", Z: c[1]}})
		}
	case "Tstr":
		for _, c := range c16CorpusTstr {
			corpus = append(corpus, [2]*Val{{K: "str", S: c[0]}, {K: "str", S: c[1]}})
		}
	case "bytes":
		for _, c := range c16CorpusTstr {
			corpus = append(corpus, [2]*Val{{K: "bytes", S: c[0]}, {K: "bytes", S: c[1]}})
		}
	}
	for _, c := range corpus {
		if kt.hash(kt.build(c[0])) == kt.hash(kt.build(c[1])) {
			out = append(out, c)
		}
	}
	want += len(out)
	seen := map[uint32]*Val{}
	for i := 0; i < n && len(out) < want; i++ {
		var v *Val
		switch kt.name {
		case "Tlong":
			v = &Val{K: "long", Z: int64(r.U64())}
		case "Tstr":
			b := make([]byte, 6)
			for j := range b {
				b[j] = "abcdefghijklmnopqrstuvwxyz0123456789 +%(),:'"[r.Intn(44)]
			}
			v = &Val{K: "str", S: string(b)}
		case "bytes":
			b := make([]byte, 5)
			for j := range b {
				b[j] = byte(r.Intn(256))
			}
			v = &Val{K: "bytes", S: string(b)}
		case "Fx4":
			return nil // FNV-1a is injective on 4 bytes from a fixed start? not searched
		case "Inner", "CK":
			in := &Val{K: "rec", Fields: []*Val{{K: "int", Z: int64(int32(r.U64()))}, nil}}
			if r.Bool() {
				in.Fields[1] = &Val{K: "str", S: string([]byte{"abcdefgh"[r.Intn(8)], "ijklmnop"[r.Intn(8)]})}
			}
			v = in
			if kt.name == "CK" {
				v = &Val{K: "rec", Incs: []*Val{in}, Fields: []*Val{nil}}
			}
		default:
			return nil
		}
		h := kt.hash(kt.build(v))
		if w, ok := seen[h]; ok {
			if !kt.keyEq(v, w) {
				out = append(out, [2]*Val{w, v})
			}
		} else {
			seen[h] = v
		}
	}
	return out
}

// fixed corpus of colliding keys (FNV-1a 32 with the pinned constants; found offline with the search above); it is re-validated
// at start-up and merely counted when it no longer collides
var c16CorpusTlong = [][2]int64{{838517077, 149557353}, {232280449, 101450477}, {823332890, 242327870}, {5549191, 770199891}, {33278115, 404036423}, {387495376, 890720490}}
var c16CorpusTstr = [][2]string{{"costarring", "liquid"}, {"739qkv:", " uzs52"}, {"%+1:hl", "9f('89b"}, {"fti3:w", "25 718"}, {"xtqby%o", "+)lm(%"}, {"lzdf ll", "6yoiwx"}, {" +7:fj", "v2gduj"}}

// ---- observation
type c16Obs struct {
	Keys    []*Val       `json:"keys"`
	Add     int          `json:"add"` // -1: every key was added; i: AddKey(keys[i]) failed first
	Ids     string       `json:"ids,omitempty"`
	Probes  []c16Probe   `json:"probes,omitempty"`
	Replies []c16Reply   `json:"replies,omitempty"`
	Type    string       `json:"type"`
	Mode    string       `json:"mode"`
	Note    string       `json:"note,omitempty"`
	MapAdd  string       `json:"mapAdd,omitempty"` // AddAllMapKeys over a map keyed by the (pointer) keys: "error" | "ok" | "" (not observed)
	Bulk    []c16Bulk    `json:"bulk,omitempty"`   // the bulk entry points on the whole key list
}

// one bulk entry point driven with the caller's whole key list
type c16Bulk struct {
	Entry    string `json:"entry"`
	Rejected bool   `json:"rejected"`       // an error (for the client functions: and no request reached the transport)
	Sent     int    `json:"sent,omitempty"` // client functions: requests that reached the transport
	NoModel  bool   `json:"noModel,omitempty"` // map entry points on value keys: the Go map merged keys that are ==, the list is not the map's key set
}

var c16BulkIds = map[string]int{"AddAllKeys": 0, "AddAllKeys-two-calls": 1, "AddAllKeys/typed": 2, "AddAllKeys-two-calls/typed": 3,
	"BatchGet": 4, "BatchDelete": 5, "BatchUpdate": 6, "BatchPartialUpdate": 7}
type c16Probe struct {
	Key   *Val `json:"key"`
	Found bool `json:"found"`
	Orig  *Val `json:"orig,omitempty"`
	Index int  `json:"index"` // index of the original the returned key is identical to (-1: none)
}
type c16Entry struct {
	Raw string `json:"raw"`
	Val *Val   `json:"val,omitempty"` // the key the raw text was made from (nil: garbage)
	Tag int    `json:"tag"`           // payload tag; -1: a payload that does not decode
}
type c16Reply struct {
	Kind    string         `json:"kind"`
	Fields  []string       `json:"fields"` // results | statuses | errors | other
	Entries [][]c16Entry   `json:"entries"`
	JSON    string         `json:"json"`
	Err     bool           `json:"err"`
	ErrText string         `json:"errText,omitempty"`
	Maps    [3][]c16MapEnt `json:"maps"` // results, statuses, errors (sorted by tag)
	NilMap  [3]bool        `json:"nilMap"`
}
type c16MapEnt struct {
	Key   *Val `json:"key"`
	Tag   int  `json:"tag"`
	Index int  `json:"index"`
}

func c16EncodeKey[K any](k K, header bool) (string, bool) {
	var w restlicodec.Writer
	if header {
		w = restlicodec.NewRor2HeaderWriter()
	} else {
		w = restlicodec.NewRestLiQueryParamsWriter()
	}
	ok := true
	func() {
		defer func() {
			if recover() != nil {
				ok = false
			}
		}()
		if err := restlicodec.MarshalRestLi(k, w); err != nil {
			ok = false
		}
	}()
	if !ok {
		return "", false
	}
	return w.Finalize(), true
}

func c16JSONString(s string) string {
	b, _ := json.Marshal(s)
	return string(b)
}

func c16Index[K comparable](origs []K, k K) int {
	for i, o := range origs {
		if o == k {
			return i
		}
	}
	return -1
}

// the set part: works for every key type
func c16SetPart[K any](kt c16Key[K], vals []*Val, probes []*Val, rep *hx.Report) (obs c16Obs, set batchkeyset.BatchKeySet[K], origs []K, ok bool) {
	for _, v := range vals {
		v.c10FixNaN()
	}
	for _, v := range probes {
		v.c10FixNaN()
	}
	obs = c16Obs{Type: kt.name, Mode: "c16", Keys: vals, Add: -1}
	site := "v2/restli/batchkeyset"
	set = batchkeyset.NewBatchKeySet[K]()
	for i, v := range vals {
		k := kt.build(v)
		origs = append(origs, k)
		err := set.AddKey(k)
		// oracle: rejected iff an earlier key is equal (key part only for complex keys)
		dup := false
		for j := 0; j < i; j++ {
			if kt.keyEq(vals[j], v) {
				dup = true
			}
		}
		if dup && err == nil {
			rep.Fail("keyset:duplicate-not-rejected", "AddKey accepted a key equal to one already in the set", site+"/generic.go:18 primitive.go:13", obs.desc(i), nil)
		}
		if !dup && err != nil {
			rep.Fail("keyset:distinct-key-rejected", "AddKey rejected a key that is not equal to any key of the set", site, obs.desc(i), err.Error())
		}
		if err != nil {
			obs.Add = i
			// AddAllKeys agrees
			s2 := batchkeyset.NewBatchKeySet[K]()
			if batchkeyset.AddAllKeys(s2, origs...) == nil {
				rep.Fail("keyset:addall-disagrees", "AddAllKeys succeeds where the sequence of AddKey fails", site+"/set.go:45", obs.desc(i), nil)
			}
			return obs, set, origs, false
		}
	}
	s2 := batchkeyset.NewBatchKeySet[K]()
	if err := batchkeyset.AddAllKeys(s2, origs...); err != nil {
		rep.Fail("keyset:addall-disagrees", "AddAllKeys fails where the sequence of AddKey succeeds", site+"/set.go:45", obs.desc(-1), err.Error())
	}
	// ids
	ids, err := set.EncodeQueryParams()
	if err != nil {
		obs.Note = "encode-error"
		return obs, set, origs, false
	}
	obs.Ids = ids
	var each []string
	for _, k := range origs {
		s, _ := c16EncodeKey(k, false)
		each = append(each, s)
	}
	sort.Strings(each)
	if want := "ids=List(" + strings.Join(each, ",") + ")"; ids != want {
		rep.Fail("ids:not-each-key-once-sorted", "the ids parameter is not the sorted list of the individually encoded keys, each once", site+"/set.go:33", obs.desc(-1), map[string]string{"got": ids, "want": want})
	}
	// probes
	for _, pv := range probes {
		pk := kt.build(pv)
		got, found := set.LocateOriginalKey(pk)
		p := c16Probe{Key: pv, Found: found, Index: -1}
		want := -1
		for i, v := range vals {
			if kt.keyEq(v, pv) {
				want = i
				break
			}
		}
		if found {
			p.Orig = kt.back(got)
			for i := range origs {
				if reflect.DeepEqual(any(origs[i]), any(got)) && (!kt.ptr || reflect.ValueOf(origs[i]).Pointer() == reflect.ValueOf(got).Pointer()) {
					p.Index = i
					break
				}
			}
		}
		switch {
		case want >= 0 && !found:
			rep.Fail("locate:original-not-found", "LocateOriginalKey does not find a key equal to one of the set", site+"/generic.go:35", obs.descProbe(pv), nil)
		case want < 0 && found:
			rep.Fail("locate:unknown-key-found", "LocateOriginalKey finds a key that is not equal to any key of the set", site+"/generic.go:35", obs.descProbe(pv), nil)
		case want >= 0 && kt.ptr && p.Index != want:
			rep.Fail("locate:not-the-original", "LocateOriginalKey returns something else than the very key that was added", site+"/generic.go:35", obs.descProbe(pv), nil)
		case want >= 0 && !kt.ptr && !valEq(p.Orig, vals[want]) && !(p.Orig.hasNaN()):
			// value keys: the very value that was added (for floats: the same sign of zero)
			rep.Fail("locate:not-the-original", "LocateOriginalKey returns something else than the very key that was added", site+"/generic.go:35 primitive.go:21", obs.descProbe(pv), nil)
		}
		obs.Probes = append(obs.Probes, p)
	}
	return obs, set, origs, true
}

// two keys of the list are equal under key equality
func c16HasDup[K any](kt c16Key[K], vals []*Val) bool {
	for i := range vals {
		for j := 0; j < i; j++ {
			if kt.keyEq(vals[j], vals[i]) {
				return true
			}
		}
	}
	return false
}

func c16WantIds[K any](keys []K) string {
	var each []string
	for _, k := range keys {
		s, _ := c16EncodeKey(k, false)
		each = append(each, s)
	}
	sort.Strings(each)
	return "ids=List(" + strings.Join(each, ",") + ")"
}

// AddAllKeys with the WHOLE key list, on a set of every constructor, in one call and split over two calls: every key type
func c16BulkPart[K any](kt c16Key[K], obs *c16Obs, rep *hx.Report) {
	site := "v2/restli/batchkeyset/set.go:45 AddAllKeys"
	dup := c16HasDup(kt, obs.Keys)
	build := func() []K {
		var ks []K
		for _, v := range obs.Keys {
			ks = append(ks, kt.build(v))
		}
		return ks
	}
	type ctor struct {
		suffix string
		mk     func() batchkeyset.BatchKeySet[K]
	}
	ctors := []ctor{{"", batchkeyset.NewBatchKeySet[K]}}
	if kt.ctor != nil {
		ctors = append(ctors, ctor{"/typed", kt.ctor})
	}
	for _, c := range ctors {
		for _, split := range []bool{false, true} {
			entry := "AddAllKeys" + c.suffix
			keys := build()
			set := c.mk()
			var err error
			if split {
				entry = "AddAllKeys-two-calls" + c.suffix
				h := (len(keys) + 1) / 2
				if err = batchkeyset.AddAllKeys(set, keys[:h]...); err == nil {
					err = batchkeyset.AddAllKeys(set, keys[h:]...)
				}
			} else {
				err = batchkeyset.AddAllKeys(set, keys...)
			}
			obs.Bulk = append(obs.Bulk, c16Bulk{Entry: entry, Rejected: err != nil})
			rep.Count(fmt.Sprintf("bulk:%s:rejected=%v", entry, err != nil))
			ctorName := "NewBatchKeySet"
			if c.suffix != "" {
				ctorName = kt.cname
			}
			switch {
			case dup && err == nil:
				ids, _ := set.EncodeQueryParams()
				rep.Fail("keyset:addall-duplicate-not-rejected", "AddAllKeys accepts a key list that holds two keys equal under key equality ("+entry+" on "+ctorName+")", site, obs.desc(-1), ids)
			case !dup && err != nil:
				rep.Fail("keyset:addall-distinct-keys-rejected", "AddAllKeys rejects a key list whose keys are pairwise different under key equality ("+entry+" on "+ctorName+")", site, obs.desc(-1), err.Error())
			case err == nil:
				if ids, e2 := set.EncodeQueryParams(); e2 == nil && ids != c16WantIds(keys) {
					rep.Fail("ids:not-each-key-once-sorted", "after AddAllKeys the ids parameter is not the sorted list of the individually encoded keys, each once", site, obs.desc(-1), map[string]string{"got": ids, "want": c16WantIds(keys)})
				}
			}
		}
	}
}

// a transport that counts and answers an empty batch response
type c16Transport struct {
	n     int
	query string
}

func (t *c16Transport) RoundTrip(req *http.Request) (*http.Response, error) {
	t.n++
	t.query = req.URL.RawQuery
	h := http.Header{}
	h.Set(restli.ProtocolVersionHeader, restli.ProtocolVersion)
	h.Set("Content-Type", "application/json")
	return &http.Response{StatusCode: 200, Status: "200 OK", Proto: "HTTP/1.1", ProtoMajor: 1, ProtoMinor: 1, Header: h,
		Body: io.NopCloser(strings.NewReader(`{"results":{}}`)), Request: req}, nil
}

var c16BaseURL = &url.URL{Scheme: "http", Host: "c16.invalid", Path: "/ctx"}

// the client functions that build a key set from the caller's collection (collection_batch_methods.go): BatchGet / BatchDelete take
// a slice (AddAllKeys), BatchUpdate / BatchPartialUpdate a map keyed by the keys (AddAllMapKeys).  A real *restli.Client on a counting
// transport: a list with two key-equal keys is rejected and NOTHING is sent; otherwise exactly one request goes out, its ids
// parameter naming every key once.  encodable: the set part could encode every key (otherwise a refusal proves nothing).
func c16ClientPart[K comparable](kt c16Key[K], obs *c16Obs, encodable bool, rep *hx.Report) {
	site := "v2/restli/collection_batch_methods.go:124-226"
	dupList := c16HasDup(kt, obs.Keys)
	if !dupList && !encodable {
		return
	}
	rp := restli.ResourcePathString("/things")
	for _, entry := range []string{"BatchGet", "BatchDelete", "BatchUpdate", "BatchPartialUpdate"} {
		var keys []K
		for _, v := range obs.Keys {
			keys = append(keys, kt.build(v))
		}
		tr := &c16Transport{}
		c := &restli.Client{Client: &http.Client{Transport: tr}, HostnameResolver: &restli.SimpleHostnameResolver{Hostname: c16BaseURL}}
		var err error
		var pnc interface{}
		dup, sentKeys, noModel := dupList, keys, false
		func() {
			defer func() { pnc = recover() }()
			switch entry {
			case "BatchGet":
				_, err = restli.BatchGet[K, *fam.Inner](c, context.Background(), rp, keys, nil)
			case "BatchDelete":
				_, err = restli.BatchDelete[K](c, context.Background(), rp, keys, nil)
			default:
				entities := map[K]*fam.Inner{}
				for _, k := range keys {
					entities[k] = &fam.Inner{}
				}
				// the caller's collection is the map: its keys (value keys that are == were merged by the Go map itself)
				var mapVals []*Val
				sentKeys = nil
				for k := range entities {
					mapVals = append(mapVals, kt.back(k))
					sentKeys = append(sentKeys, k)
				}
				noModel = len(entities) != len(keys)
				dup = c16HasDup(kt, mapVals)
				if entry == "BatchUpdate" {
					_, err = restli.BatchUpdate[K, *fam.Inner](c, context.Background(), rp, entities, nil, nil)
				} else {
					_, err = restli.BatchPartialUpdate[K, *fam.Inner](c, context.Background(), rp, entities, nil, nil)
				}
			}
		}()
		if pnc != nil {
			rep.Fail("client:panic:"+entry, entry+" panicked", site, obs.desc(-1), fmt.Sprint(pnc))
			continue
		}
		rejected := err != nil && tr.n == 0
		obs.Bulk = append(obs.Bulk, c16Bulk{Entry: entry, Rejected: rejected, Sent: tr.n, NoModel: noModel})
		rep.Count(fmt.Sprintf("bulk:%s:rejected=%v", entry, rejected))
		switch {
		case dup && tr.n > 0:
			what := entry + " sends a request for a key collection that holds two keys equal under key equality instead of rejecting it before anything is sent"
			if err != nil {
				what += " (it returns an error afterwards)"
			}
			rep.Fail("client:duplicate-not-rejected:"+entry, what, site, obs.desc(-1), map[string]interface{}{"requests": tr.n, "query": tr.query})
		case dup && err == nil:
			rep.Fail("client:duplicate-not-rejected:"+entry, entry+" returns no error for a key collection that holds two keys equal under key equality", site, obs.desc(-1), nil)
		case !dup && tr.n == 0:
			rep.Fail("client:distinct-keys-rejected:"+entry, entry+" sends nothing for a key collection whose keys are pairwise different under key equality", site, obs.desc(-1), fmt.Sprint(err))
		case !dup && tr.n > 1:
			rep.Fail("client:request-repeated:"+entry, entry+" sends more than one request", site, obs.desc(-1), tr.n)
		case !dup:
			if want := c16WantIds(sentKeys); tr.query != want {
				rep.Fail("client:ids-not-each-key-once-sorted:"+entry, "the ids parameter of the request "+entry+" sends is not the sorted list of the individually encoded keys, each once", site, obs.desc(-1), map[string]string{"got": tr.query, "want": want})
			}
			if err != nil {
				rep.Count("bulk:" + entry + ":error-after-the-request")
			}
		}
	}
}

// key lists with a duplicate pair at EVERY pair of positions: n distinct keys (n = 1..3) and a separately built duplicate of one of
// them (complex keys: other params; float zeros: the other sign), the pair standing at positions i < j of the list of n+1 keys -
// first/middle/last, followed or not by further keys; plus two pairs and a triple.
func c16DupLists[K any](kt c16Key[K], r *hx.Rand) [][]*Val {
	distinct := func(n int) []*Val {
		var out []*Val
		for tries := 0; len(out) < n && tries < 400; tries++ {
			v := c16Gen(kt, r)
			v.c10FixNaN()
			if v.hasNaN() {
				continue
			}
			ok := true
			for _, w := range out {
				if kt.keyEq(w, v) {
					ok = false
				}
			}
			if ok {
				out = append(out, v)
			}
		}
		return out
	}
	dupOf := func(v *Val) *Val {
		d := v.c10Clone()
		if kt.kind == 1 {
			d.Fields[0] = &Val{K: "rec", Fields: []*Val{{K: "int", Z: int64(r.Intn(1000))}, nil}}
			if r.Chance(30) {
				d.Fields[0] = nil
			}
		}
		if d.K == "double" && math.Float64frombits(d.Bits) == 0 {
			d.Bits ^= 1 << 63
		}
		if d.K == "float" && math.Float32frombits(uint32(d.Bits)) == 0 {
			d.Bits ^= 1 << 31
		}
		return d
	}
	var lists [][]*Val
	for n := 1; n <= 3; n++ {
		for i := 0; i <= n; i++ {
			for j := i + 1; j <= n; j++ {
				ks := distinct(n)
				if len(ks) < n {
					continue
				}
				l := make([]*Val, n+1)
				l[i], l[j] = ks[0], dupOf(ks[0])
				o := 1
				for p := range l {
					if l[p] == nil {
						l[p] = ks[o]
						o++
					}
				}
				lists = append(lists, l)
			}
		}
	}
	if ks := distinct(3); len(ks) == 3 {
		lists = append(lists, []*Val{ks[0], ks[1], dupOf(ks[0]), dupOf(ks[1]), ks[2]})
	}
	if ks := distinct(2); len(ks) == 2 {
		lists = append(lists, []*Val{ks[0], dupOf(ks[0]), dupOf(ks[0]), ks[1]})
	}
	return lists
}

func (o *c16Obs) desc(i int) map[string]interface{} {
	ks := make([]*Val, len(o.Keys))
	for j, k := range o.Keys {
		ks[j] = k.c10Clone().fixJSON()
	}
	return map[string]interface{}{"mode": "c16", "type": o.Type, "keys": ks, "at": i}
}
func (o *c16Obs) descProbe(p *Val) map[string]interface{} {
	d := o.desc(-1)
	d["probe"] = p.c10Clone().fixJSON()
	return d
}
func (o *c16Obs) descReply(rp *c16Reply) map[string]interface{} {
	d := o.desc(-1)
	d["reply"] = rp.JSON
	d["replyKind"] = rp.Kind
	return d
}

// the reply part: comparable key types only (BatchResponse[K comparable, V])
func c16ReplyPart[K comparable](kt c16Key[K], obs *c16Obs, set batchkeyset.BatchKeySet[K], origs []K, replies []c16Reply, rep *hx.Report) {
	site := "v2/restlidata/generated/com/linkedin/restli/common/structs.go:136-176"
	for _, rp := range replies {
		// {"results": {rawkey: {"a": tag}}, "statuses": {rawkey: tag}, "errors": {rawkey: {"status": tag}}}
		var sb strings.Builder
		sb.WriteByte('{')
		for fi, f := range rp.Fields {
			if fi > 0 {
				sb.WriteByte(',')
			}
			sb.WriteString(c16JSONString(f) + ":{")
			for ei, e := range rp.Entries[fi] {
				if ei > 0 {
					sb.WriteByte(',')
				}
				sb.WriteString(c16JSONString(e.Raw) + ":")
				switch {
				case e.Tag < 0 && f == "statuses":
					sb.WriteString(`"x"`)
				case e.Tag < 0:
					sb.WriteString(`{"a":"x","status":"x"}`)
				case f == "results":
					fmt.Fprintf(&sb, `{"a":%d}`, e.Tag)
				case f == "statuses":
					fmt.Fprintf(&sb, `%d`, e.Tag)
				default:
					fmt.Fprintf(&sb, `{"status":%d}`, e.Tag)
				}
			}
			sb.WriteByte('}')
		}
		sb.WriteByte('}')
		rp.JSON = sb.String()
		res := new(common.BatchResponse[K, *fam.Inner])
		var err error
		var pnc interface{}
		func() {
			defer func() { pnc = recover() }()
			var rd restlicodec.Reader
			rd, err = restlicodec.NewJsonReader([]byte(rp.JSON))
			if err == nil {
				err = res.UnmarshalWithKeyLocator(rd, set)
			}
		}()
		if pnc != nil {
			rep.Fail("reply:panic", "UnmarshalWithKeyLocator panicked", site, obs.descReply(&rp), fmt.Sprint(pnc))
			continue
		}
		rp.Err = err != nil
		if err != nil {
			rp.ErrText = err.Error()
		}
		// ---- expectation from the construction of the reply
		mustErr, dupInMap, hasOther := false, false, false
		hasResults := false
		for fi, f := range rp.Fields {
			if f == "results" {
				hasResults = true
			}
			if f == "other" {
				hasOther = true
				continue
			}
			seen := map[int]bool{}
			for _, e := range rp.Entries[fi] {
				idx := -1
				if e.Val != nil {
					for i, v := range obs.Keys {
						if kt.keyEq(v, e.Val) {
							idx = i
							break
						}
					}
				}
				if idx < 0 || e.Tag < 0 {
					mustErr = true
				} else if seen[idx] {
					dupInMap = true
				}
				seen[idx] = true
			}
		}
		if !hasResults {
			mustErr = true
		}
		if hasOther {
			// no expectation
		} else if mustErr && err == nil {
			rep.Fail("reply:unknown-key-accepted", "a reply that mentions a key that was never requested (or an undecodable key / value, or no results) is accepted", site, obs.descReply(&rp), nil)
		}
		if !hasOther && !mustErr && err != nil {
			sig := "reply:valid-reply-rejected"
			if c16UnsetDefault(kt.t, obs.Keys) {
				// the echoed key is decoded with the schema defaults filled in and no longer Equals the caller's key
				sig += ":key-leaves-defaulted-field-unset"
			}
			rep.Fail(sig, "a reply that only mentions requested keys is rejected", site, obs.descReply(&rp), err.Error())
		}
		if err == nil {
			collect := func(which int, n int, each func(add func(k K, tag int))) {
				rp.NilMap[which] = n < 0
				each(func(k K, tag int) {
					rp.Maps[which] = append(rp.Maps[which], c16MapEnt{Key: kt.back(k), Tag: tag, Index: c16Index(origs, k)})
				})
				sort.Slice(rp.Maps[which], func(i, j int) bool { return rp.Maps[which][i].Tag < rp.Maps[which][j].Tag })
			}
			ln := func(isNil bool, l int) int {
				if isNil {
					return -1
				}
				return l
			}
			collect(0, ln(res.Results == nil, len(res.Results)), func(add func(K, int)) {
				for k, v := range res.Results {
					add(k, int(v.A))
				}
			})
			collect(1, ln(res.Statuses == nil, len(res.Statuses)), func(add func(K, int)) {
				for k, v := range res.Statuses {
					add(k, v)
				}
			})
			collect(2, ln(res.Errors == nil, len(res.Errors)), func(add func(K, int)) {
				for k, v := range res.Errors {
					tag := -2
					if v != nil && v.Status != nil {
						tag = int(*v.Status)
					}
					add(k, tag)
				}
			})
			// every entry filed under the very original, none lost / duplicated / moved (replies without two entries for one key)
			if !mustErr && !dupInMap {
				for fi, f := range rp.Fields {
					which := map[string]int{"results": 0, "statuses": 1, "errors": 2, "other": -1}[f]
					if which < 0 {
						continue
					}
					got := rp.Maps[which]
					if len(got) != len(rp.Entries[fi]) {
						rep.Fail("reply:entry-lost-or-duplicated", "the number of entries of a map of the response differs from the reply's", site, obs.descReply(&rp), nil)
						continue
					}
					for _, e := range rp.Entries[fi] {
						want := -1
						for i, v := range obs.Keys {
							if kt.keyEq(v, e.Val) {
								want = i
								break
							}
						}
						var hit *c16MapEnt
						for gi := range got {
							if got[gi].Tag == e.Tag {
								hit = &got[gi]
							}
						}
						switch {
						case hit == nil:
							rep.Fail("reply:entry-lost-or-duplicated", "an entry of the reply is missing from the response", site, obs.descReply(&rp), nil)
						case kt.ptr && hit.Index != want:
							rep.Fail("reply:not-filed-under-the-original", "an entry of the reply is filed under a key that is not the very key the caller supplied", site, obs.descReply(&rp), nil)
						case !kt.ptr && !valEq(hit.Key, obs.Keys[want]):
							rep.Fail("reply:not-filed-under-the-original", "an entry of the reply is filed under a key that is not the key value the caller supplied (for floats: the same sign of zero)", site, obs.descReply(&rp), nil)
						}
					}
				}
			}
		}
		rep.Count("reply=" + rp.Kind)
		rep.Count(fmt.Sprintf("reply-error=%v", rp.Err))
		obs.Replies = append(obs.Replies, rp)
	}
}

// replies for a set of original keys
func c16Replies[K any](kt c16Key[K], r *hx.Rand, vals []*Val, extra []*Val) []c16Reply {
	raw := func(v *Val) (string, bool) { return c16EncodeKey(kt.build(v), true) }
	tag := 100
	ent := func(v *Val) c16Entry {
		s, _ := raw(v)
		tag++
		return c16Entry{Raw: s, Val: v, Tag: tag}
	}
	// the server's copy of a key: for complex keys other params (or none)
	server := func(v *Val) *Val {
		c := v.c10Clone()
		// a float zero comes back with the other sign (the two are == and encode differently)
		if c.K == "double" && math.Float64frombits(c.Bits) == 0 && r.Bool() {
			c.Bits ^= 1 << 63
		}
		if c.K == "float" && math.Float32frombits(uint32(c.Bits)) == 0 && r.Bool() {
			c.Bits ^= 1 << 31
		}
		if kt.kind == 1 {
			switch r.Intn(3) {
			case 0:
				c.Fields[0] = nil
			case 1:
				c.Fields[0] = &Val{K: "rec", Fields: []*Val{{K: "int", Z: 424242}, {K: "str", S: "server"}}}
			}
		}
		return c
	}
	all := func() []c16Entry {
		var es []c16Entry
		for _, v := range vals {
			es = append(es, ent(server(v)))
		}
		return es
	}
	var out []c16Reply
	out = append(out, c16Reply{Kind: "all-results", Fields: []string{"results"}, Entries: [][]c16Entry{all()}})
	out = append(out, c16Reply{Kind: "all-three", Fields: []string{"errors", "results", "statuses"}, Entries: [][]c16Entry{all(), all(), all()}})
	// split + permuted
	{
		var a, b, c []c16Entry
		perm := make([]int, len(vals))
		for i := range perm {
			perm[i] = i
		}
		c10ShuffleN(r, len(perm), func(i, j int) { perm[i], perm[j] = perm[j], perm[i] })
		for _, i := range perm {
			switch r.Intn(4) {
			case 0:
				a = append(a, ent(server(vals[i])))
			case 1:
				b = append(b, ent(server(vals[i])))
			case 2:
				c = append(c, ent(server(vals[i])))
			}
		}
		out = append(out, c16Reply{Kind: "subset-split-permuted", Fields: []string{"statuses", "results", "errors"}, Entries: [][]c16Entry{b, a, c}})
		// a member the envelope does not know (outside C16: no expectation of its own; the model follows readRecord, which skips it)
		out = append(out, c16Reply{Kind: "unknown-member", Fields: []string{"results", "other"}, Entries: [][]c16Entry{all(), {{Raw: "zz", Tag: 1}}}})
	}
	out = append(out, c16Reply{Kind: "no-results", Fields: []string{"statuses"}, Entries: [][]c16Entry{all()}})
	// an UNREQUESTED key whose hash collides with a requested key's, in each of the three maps
	nStr := 0
	for _, x := range extra {
		collides, known := false, false
		for _, v := range vals {
			if kt.keyEq(v, x) {
				known = true
			} else if kt.hash != nil && kt.hash(kt.build(v)) == kt.hash(kt.build(x)) {
				collides = true
			}
		}
		if known || !collides || nStr >= 2 {
			continue
		}
		nStr++
		for _, f := range []string{"results", "statuses", "errors"} {
			es := all()
			pos := r.Intn(len(es) + 1)
			es = append(es[:pos:pos], append([]c16Entry{ent(x)}, es[pos:]...)...)
			if f == "results" {
				out = append(out, c16Reply{Kind: "colliding-stranger:" + f, Fields: []string{"results"}, Entries: [][]c16Entry{es}})
			} else {
				out = append(out, c16Reply{Kind: "colliding-stranger:" + f, Fields: []string{"results", f}, Entries: [][]c16Entry{all(), es}})
			}
		}
		// and alone (the reply names only the stranger)
		out = append(out, c16Reply{Kind: "colliding-stranger:alone", Fields: []string{"results"}, Entries: [][]c16Entry{{ent(x)}}})
	}
	// superset: one unknown key
	for _, x := range extra {
		known := false
		for _, v := range vals {
			if kt.keyEq(v, x) {
				known = true
			}
		}
		if known {
			continue
		}
		es := all()
		pos := r.Intn(len(es) + 1)
		es = append(es[:pos:pos], append([]c16Entry{ent(x)}, es[pos:]...)...)
		f := []string{"results", "statuses", "errors"}[r.Intn(3)]
		fields, entries := []string{"results"}, [][]c16Entry{all()}
		if f == "results" {
			entries[0] = es
		} else {
			fields, entries = append(fields, f), append(entries, es)
		}
		out = append(out, c16Reply{Kind: "superset-unknown-key", Fields: fields, Entries: entries})
		break
	}
	if len(vals) > 0 {
		// an undecodable key / an undecodable value
		es := all()
		es = append(es, c16Entry{Raw: "(", Tag: 999})
		out = append(out, c16Reply{Kind: "garbage-key", Fields: []string{"results"}, Entries: [][]c16Entry{es}})
		es = all()
		es[r.Intn(len(es))].Tag = -1
		out = append(out, c16Reply{Kind: "garbage-value", Fields: []string{"results", "statuses"}, Entries: [][]c16Entry{all(), es}})
		// integer keys: a never-requested key whose text is a requested key plus / minus a multiple of 2^32 (2^64): it is not in the
		// key's range, so it denotes no key at all (and certainly not the requested one it would wrap to)
		width := ""
		switch {
		case kt.t.Primitive == "int32", kt.t.Reference != nil && schema.Types[kt.t.Reference.Name] != nil && schema.Types[kt.t.Reference.Name].Kind == "typeref" && schema.Types[kt.t.Reference.Name].Prim == "int32":
			width = "4294967296"
		case kt.t.Primitive == "int64", kt.t.Reference != nil && schema.Types[kt.t.Reference.Name] != nil && schema.Types[kt.t.Reference.Name].Kind == "typeref" && schema.Types[kt.t.Reference.Name].Prim == "int64":
			width = "18446744073709551616"
		}
		if width != "" {
			v := vals[r.Intn(len(vals))]
			w, _ := new(big.Int).SetString(width, 10)
			for _, sign := range []int64{1, -1} {
				z := new(big.Int).Add(big.NewInt(v.Z), new(big.Int).Mul(w, big.NewInt(sign)))
				es = append(all(), c16Entry{Raw: z.String(), Tag: 998})
				out = append(out, c16Reply{Kind: "out-of-range-key", Fields: []string{"results"}, Entries: [][]c16Entry{es}})
			}
		}
		if kt.kind == 1 {
			// the same key twice with different params: the later entry replaces the earlier (outside the property's replies)
			v := vals[r.Intn(len(vals))]
			a, b := v.c10Clone(), v.c10Clone()
			a.Fields[0] = nil
			b.Fields[0] = &Val{K: "rec", Fields: []*Val{{K: "int", Z: 5}, nil}}
			out = append(out, c16Reply{Kind: "same-key-twice", Fields: []string{"results"}, Entries: [][]c16Entry{{ent(a), ent(b)}}})
		}
	}
	return out
}

// ---- the case for the model
func c16CodecTy(kt string, t RType) string {
	if kt == "CK" {
		return fmt.Sprintf("(TRef %d)", len(schema.EnvIndex))
	}
	return schema.coqTy(t)
}

func c16Coq[K any](kt c16Key[K], o *c16Obs) string {
	var fl []floatEnt
	texts := append([]string{}, baseTexts...)
	addVal := func(v *Val) {
		var f []floatEnt
		v.floats(&f)
		fl = append(fl, f...)
		for _, x := range f {
			texts = append(texts, x.text)
		}
	}
	for _, k := range o.Keys {
		addVal(k)
	}
	add := "None"
	if o.Add >= 0 {
		add = fmt.Sprintf("(Some %d)", o.Add)
	}
	var probes []string
	for _, p := range o.Probes {
		addVal(p.Key)
		if p.Found {
			addVal(p.Orig)
			probes = append(probes, "("+p.Key.Coq()+", Some "+p.Orig.Coq()+")")
		} else {
			probes = append(probes, "("+p.Key.Coq()+", None)")
		}
	}
	var replies []string
	for _, rp := range o.Replies {
		var fields []string
		for fi, f := range rp.Fields {
			var es []string
			for _, e := range rp.Entries[fi] {
				texts = append(texts, candidateTexts(e.Raw, 2)...)
				p := "None"
				if e.Tag >= 0 {
					p = fmt.Sprintf("(Some %d%%N)", e.Tag)
				}
				es = append(es, "("+hx.CoqBytes(e.Raw)+", "+p+")")
			}
			fields = append(fields, fmt.Sprintf("(%s, [%s])", map[string]string{"results": "FResults", "statuses": "FStatuses", "errors": "FErrors", "other": "FOther"}[f], strings.Join(es, ";")))
		}
		obs := "None"
		if !rp.Err {
			var maps []string
			for w := 0; w < 3; w++ {
				if rp.NilMap[w] {
					maps = append(maps, "None")
					continue
				}
				var es []string
				for _, e := range rp.Maps[w] {
					addVal(e.Key)
					es = append(es, fmt.Sprintf("(%s, %d%%N)", e.Key.Coq(), e.Tag))
				}
				maps = append(maps, "(Some ["+strings.Join(es, ";")+"])")
			}
			obs = "(Some (" + strings.Join(maps, ", ") + "))"
		}
		replies = append(replies, "(["+strings.Join(fields, ";")+"], "+obs+")")
	}
	mapAdd := "None"
	switch o.MapAdd {
	case "ok":
		mapAdd = "(Some false)"
	case "error":
		mapAdd = "(Some true)"
	}
	var bulk []string
	for _, b := range o.Bulk {
		if !b.NoModel {
			bulk = append(bulk, fmt.Sprintf("(%d, %s)", c16BulkIds[b.Entry], hx.CoqBool(b.Rejected)))
		}
	}
	return fmt.Sprintf("{| c_kind := %d; c_hty := %s; c_ty := %s; c_floats := %s; c_parse := %s;\n c_keys := %s; c_add := %s; c_mapadd := %s; c_bulk := [%s]; c_ids := %s;\n c_probes := [%s];\n c_replies := [%s] |}",
		kt.kind, c10Ty(kt.t), c16CodecTy(kt.name, kt.t), coqFloats(fl), coqParseTable(texts), coqVals(o.Keys), add, mapAdd, strings.Join(bulk, "; "), hx.CoqBytes(o.Ids),
		strings.Join(probes, ";"), strings.Join(replies, ";\n  "))
}

func (o *c16Obs) describe() *c16Obs {
	c := *o
	c.Keys = nil
	for _, k := range o.Keys {
		c.Keys = append(c.Keys, k.c10Clone().fixJSON())
	}
	c.Probes = nil
	for _, p := range o.Probes {
		p.Key = p.Key.c10Clone().fixJSON()
		p.Orig = p.Orig.c10Clone().fixJSON()
		c.Probes = append(c.Probes, p)
	}
	c.Replies = nil
	for _, rp := range o.Replies {
		q := rp
		q.Entries = nil
		for _, es := range rp.Entries {
			var l []c16Entry
			for _, e := range es {
				e.Val = e.Val.c10Clone().fixJSON()
				l = append(l, e)
			}
			q.Entries = append(q.Entries, l)
		}
		for w := 0; w < 3; w++ {
			q.Maps[w] = nil
			for _, e := range rp.Maps[w] {
				e.Key = e.Key.c10Clone().fixJSON()
				q.Maps[w] = append(q.Maps[w], e)
			}
		}
		c.Replies = append(c.Replies, q)
	}
	return &c
}

// ---- scenarios for one key type
func c16Scenario[K any](kt c16Key[K], r *hx.Rand, coll [][2]*Val, special [][]*Val, i int) (vals, probes, extra []*Val, note string) {
	if i < len(special) {
		vals = special[i]
		note = "special"
	} else if j := i - len(special); j < 2*len(coll) {
		// ONE member of a colliding pair is requested (alone in its hash bucket), the other is a stranger
		vals = []*Val{coll[j/2][j%2]}
		for k := r.Intn(3); k > 0; k-- {
			v := c16Gen(kt, r)
			if !kt.keyEq(v, coll[j/2][0]) && !kt.keyEq(v, coll[j/2][1]) && !kt.keyEq(v, vals[len(vals)-1]) && (len(vals) < 2 || !kt.keyEq(v, vals[0])) {
				if r.Bool() {
					vals = append(vals, v)
				} else {
					vals = append([]*Val{v}, vals...)
				}
			}
		}
		extra = append(extra, coll[j/2][1-j%2])
		probes = append(probes, coll[j/2][1-j%2])
		note = "lone-colliding"
	} else {
		n := r.Intn(6)
		if kt.name == "bool" {
			n = r.Intn(3)
		}
		for len(vals) < n {
			v := c16Gen(kt, r)
			dup := false
			for _, w := range vals {
				if kt.keyEq(w, v) {
					dup = true
				}
			}
			if !dup || v.hasNaN() {
				vals = append(vals, v)
			} else if kt.name == "bool" || kt.name == "Color" {
				break
			}
		}
		if len(coll) > 0 && r.Chance(50) {
			c := coll[r.Intn(len(coll))]
			for _, v := range c {
				dup := false
				for _, w := range vals {
					if kt.keyEq(w, v) {
						dup = true
					}
				}
				if !dup {
					pos := r.Intn(len(vals) + 1)
					vals = append(vals[:pos:pos], append([]*Val{v}, vals[pos:]...)...)
				}
			}
			note = "colliding"
		}
		if len(vals) > 0 && r.Chance(25) {
			// a duplicate: separately built, for complex keys with other params
			d := vals[r.Intn(len(vals))].c10Clone()
			if kt.kind == 1 {
				d.Fields[0] = &Val{K: "rec", Fields: []*Val{{K: "int", Z: int64(r.Intn(1000))}, nil}}
			}
			if d.K == "double" && math.Float64frombits(d.Bits) == 0 || d.K == "float" && math.Float32frombits(uint32(d.Bits)) == 0 {
				d.Bits = 0 // +0 after -0 (and conversely below)
			}
			pos := r.Intn(len(vals) + 1)
			vals = append(vals[:pos:pos], append([]*Val{d}, vals[pos:]...)...)
			note += "+duplicate"
		}
	}
	for _, v := range vals {
		p := v.c10Clone()
		if kt.kind == 1 {
			p.Fields[0] = &Val{K: "rec", Fields: []*Val{{K: "int", Z: 31337}, {K: "str", S: "probe"}}}
		}
		probes = append(probes, p)
		if p.K == "double" && math.Float64frombits(p.Bits) == 0 {
			probes = append(probes, &Val{K: "double", Bits: p.Bits ^ (1 << 63)})
		}
		if p.K == "float" && math.Float32frombits(uint32(p.Bits)) == 0 {
			probes = append(probes, &Val{K: "float", Bits: p.Bits ^ (1 << 31)})
		}
	}
	for _, c := range coll {
		probes = append(probes, c[0], c[1])
		if len(probes) > 12 {
			break
		}
	}
	for k := 0; k < 3; k++ {
		x := c16Gen(kt, r)
		probes = append(probes, x)
		extra = append(extra, x)
	}
	for _, c := range coll {
		extra = append(extra, c[1], c[0])
	}
	return
}

func c16RunSet[K any](kt c16Key[K], r *hx.Rand, rep *hx.Report, sh *hx.Shards, n int, special [][]*Val,
	replyPart func(obs *c16Obs, set batchkeyset.BatchKeySet[K], origs []K, replies []c16Reply), mapPart func(obs *c16Obs, encodable bool)) {
	coll := c16Collisions(kt, r, 250000, 4)
	rep.CountN("colliding-pairs:"+kt.name, len(coll))
	lone := 2 * len(coll)
	if c16Replaying {
		coll, lone = nil, 0
	}
	handWritten := len(special)
	if !c16Replaying {
		// a duplicate pair at every pair of positions of the list
		special = append(append([][]*Val{}, special...), c16DupLists(kt, r)...)
	}
	for i := 0; i < n+len(special)+lone; i++ {
		vals, probes, extra, note := c16Scenario(kt, r, coll, special, i)
		if i >= handWritten && i < len(special) {
			note = "dup-positions"
			rep.Count("dup-position-lists")
		}
		obs, set, origs, ok := c16SetPart(kt, vals, probes, rep)
		obs.Note = note
		// the bulk entry points on the whole list
		c16BulkPart(kt, &obs, rep)
		if mapPart != nil {
			mapPart(&obs, ok)
		}
		if ok && replyPart != nil {
			replyPart(&obs, set, origs, c16Replies(kt, r, vals, extra))
		}
		rep.Evaluations += 1 + len(obs.Probes) + len(obs.Replies)
		rep.Count("type=" + kt.name)
		rep.Count(fmt.Sprintf("add-rejected=%v", obs.Add >= 0))
		if strings.Contains(note, "colliding") {
			rep.Count("with-colliding-keys")
		}
		if note == "lone-colliding" {
			rep.Count("lone-colliding-scenarios")
		}
		if obs.MapAdd != "" {
			rep.Count("addallmapkeys=" + obs.MapAdd)
		}
		nt := strings.Contains(note, "colliding") || strings.Contains(note, "duplicate") || note == "special" || note == "dup-positions"
		d := obs.describe()
		rep.Distinct(kt.name+fmt.Sprint(i)+valKey(&Val{K: "arr", Items: d.Keys}), nt)
		if nt && kt.kind != 2 {
			rep.Sample(map[string]interface{}{"type": kt.name, "keys": d.Keys, "add": obs.Add, "ids": obs.Ids, "note": note})
		}
		sh.Add(c16Coq(kt, &obs), d)
	}
}

func c16Run[K comparable](kt c16Key[K], r *hx.Rand, rep *hx.Report, sh *hx.Shards, n int, special [][]*Val) {
	c16RunSet(kt, r, rep, sh, n, special, func(obs *c16Obs, set batchkeyset.BatchKeySet[K], origs []K, replies []c16Reply) {
		c16ReplyPart(kt, obs, set, origs, replies, rep)
	}, func(obs *c16Obs, encodable bool) {
		c16MapPart(kt, obs, rep)
		c16ClientPart(kt, obs, encodable, rep)
	})
}

var c16Replaying bool

// AddAllMapKeys (BatchUpdate / BatchPartialUpdate take their entities as a map keyed by K): the keys of a Go map are distinct
// under ==, which for pointer keys (complex keys, record keys, fixed) is pointer identity - two different pointers to equal keys
// are both in the map and must be rejected as duplicates; when accepted, no id may go out twice.
func c16MapPart[K comparable](kt c16Key[K], obs *c16Obs, rep *hx.Report) {
	site := "v2/restli/batchkeyset/set.go:55 AddAllMapKeys"
	entities := map[K]int{}
	var mapVals []*Val // the abstract keys of the map (one per map entry)
	for i, v := range obs.Keys {
		k := kt.build(v)
		if _, ok := entities[k]; !ok {
			mapVals = append(mapVals, v)
		}
		entities[k] = i
	}
	if kt.ptr && len(entities) != len(obs.Keys) {
		panic("pointer keys must be distinct map keys")
	}
	dup := false
	for i := range mapVals {
		for j := 0; j < i; j++ {
			if kt.keyEq(mapVals[j], mapVals[i]) {
				dup = true
			}
		}
	}
	set := batchkeyset.NewBatchKeySet[K]()
	err := batchkeyset.AddAllMapKeys(set, entities)
	if kt.ptr {
		obs.MapAdd = "ok"
		if err != nil {
			obs.MapAdd = "error"
		}
	}
	switch {
	case dup && err == nil:
		ids, _ := set.EncodeQueryParams()
		rep.Fail("keyset:map-duplicate-not-rejected", "AddAllMapKeys accepts a map that holds two different (pointer) keys that are equal under key equality: the id is sent twice and one entity gets no result", site, obs.desc(-1), ids)
	case !dup && err != nil:
		rep.Fail("keyset:map-distinct-key-rejected", "AddAllMapKeys rejects a map whose keys are pairwise different under key equality", site, obs.desc(-1), err.Error())
	}
	if err == nil {
		ids, e2 := set.EncodeQueryParams()
		if e2 == nil {
			var each []string
			seen := map[string]bool{}
			twice := false
			for k := range entities {
				s, _ := c16EncodeKey(k, false)
				each = append(each, s)
			}
			sort.Strings(each)
			for i, s := range each {
				if i > 0 && each[i-1] == s && !strings.Contains(s, "NaN") {
					twice = true
				}
				seen[s] = true
			}
			if want := "ids=List(" + strings.Join(each, ",") + ")"; ids != want {
				rep.Fail("ids:not-each-key-once-sorted", "after AddAllMapKeys the ids parameter is not the sorted list of the individually encoded map keys", site, obs.desc(-1), map[string]string{"got": ids, "want": want})
			}
			if twice && !dup {
				// distinct keys with one encoding: not expected for the family (encodings are injective)
				rep.Count("ids-equal-encodings-of-distinct-keys")
			}
			if twice && dup {
				rep.Fail("ids:id-sent-twice", "an id is transmitted twice", site, obs.desc(-1), ids)
			}
		}
	}
}

func c16Header() string {
	// the codec environment: the family + the complex key as the record the generator makes of it
	inner := schema.EnvIndex["Inner"]
	h := strings.Replace(c10Header("KeySetCorr"), "From GR Require Import ", "From GR Require Import Gen.FamEnv Hash.KeySet ", 1)
	ck := fmt.Sprintf("Definition ck_env : env := fam_env ++ [DRecord [%d] [{| f_name := %s; f_ty := TRef %d; f_opt := Optional |}]].\n", inner, coqBytes("$params"), inner)
	return strings.Replace(h, "Module KeySetCorrI.", ck+"Module KeySetCorrI.", 1)
}

func runC16(cfg *hx.Config) {
	c10PatchSchema()
	rep := hx.NewReport("key types {int32, int64, float32, float64, bool, string (primitive sets); Tlong, Tstr (typerefs), Color (enum), Fx4 (fixed), Inner (record), " +
		"CK (complex key, with / without / differing params), bytes (set API only)} x key lists of 0-7 keys (seeded; strings from a pool of ROR2/URL-escaping-relevant texts; " +
		"pairs of keys whose REAL hashes collide, found by a birthday search at start-up; injected duplicates, for complex keys equal up to params; float specials) x " +
		"probes (separately built copies with other params, colliding strangers, random keys) x replies {all in results; all three maps; subset split and permuted over the maps with an unknown field; " +
		"no results; one unknown key; an undecodable key; an undecodable value; the same complex key twice}. " +
		"every key list is also handed WHOLE to every bulk entry point: AddAllKeys (one call / two calls) on NewBatchKeySet and on the typed constructor, AddAllMapKeys, " +
		"and the client functions BatchGet / BatchDelete / BatchUpdate / BatchPartialUpdate on a real client with a counting transport (rejected before anything is sent iff two keys are key-equal; " +
		"else one request naming every key once); per key type 12 lists with a duplicate pair at every pair of positions of lists of 2-4 keys (first/middle/last, followed or not by further keys), two pairs, a triple. " +
		"non-trivial = the key list holds colliding or duplicate keys or is a special list")
	hdr := c16Header()
	hdr = strings.Replace(hdr, "KeySetCorr.mismatches fam_henv", "KeySetCorr.mismatches fam_henv ck_env", 1)
	hdr = strings.Replace(hdr, "KeySetCorr.model_out fam_henv", "KeySetCorr.model_out fam_henv ck_env", 1)
	sh := hx.NewShards(cfg.Out, hdr, "KeySetCorrI", 10)
	r := hx.NewRand(cfg.Seed)
	n := 20
	if cfg.Thorough() {
		n = 400
	}
	if cfg.Replay != "" {
		n = 0
	}
	d := func(f float64) *Val { return &Val{K: "double", Bits: math.Float64bits(f)} }
	f := func(x float32) *Val { return &Val{K: "float", Bits: uint64(math.Float32bits(x))} }
	negz := math.Copysign(0, -1)
	s := func(x string) *Val { return &Val{K: "str", S: x} }
	inner := func(a int64, str string, has bool) *Val {
		v := &Val{K: "rec", Fields: []*Val{{K: "int", Z: a}, nil}}
		if has {
			v.Fields[1] = s(str)
		}
		return v
	}
	ck := func(k, p *Val) *Val { return &Val{K: "rec", Incs: []*Val{k}, Fields: []*Val{p}} }
	special := map[string][][]*Val{
		"float64": {{d(0)}, {d(negz)}, {d(0), d(negz)}, {d(math.NaN()), d(math.NaN()), d(1)}, {d(1e21), d(1e-7), d(math.Inf(1))}},
		"float32": {{f(0)}, {f(float32(negz))}, {f(float32(negz)), f(0)}, {f(float32(math.NaN())), f(1)}},
		"string":  {{s("a b"), s("a+b"), s("a%20b"), s("a%2Bb")}, {s(""), s("''"), s("'")}, {s("("), s(")"), s("%28"), s("List()")}, {s("é"), s("é")}},
		"Tstr":    {{s("a b"), s("a+b"), s("a%20b"), s("a%2Bb")}, {s(""), s("''")}, {s("a,b"), s("a"), s("b"), s("a:b")}},
		"CK": {{ck(inner(1, "", false), nil), ck(inner(1, "", true), nil), ck(inner(1, "''", true), nil)},
			{ck(inner(1, "x", true), inner(1, "p", true)), ck(inner(1, "x", true), inner(2, "q", true))},
			{ck(inner(1, "x", true), nil), ck(inner(1, "x", true), inner(2, "q", true))},
			{ck(inner(7, "a,b", true), inner(1, "", false)), ck(inner(7, "a", true), nil), ck(inner(7, "a%2Cb", true), nil)}},
	}
	if cfg.Replay != "" {
		special = c16ReplaySpecial(cfg.Replay)
		c16Replaying = true
	}
	c16Run(c16Prim[int32]("int32").with("NewPrimitiveKeySet", batchkeyset.NewPrimitiveKeySet[int32]), r, rep, sh, n, special["int32"])
	c16Run(c16Prim[int64]("int64").with("NewPrimitiveKeySet", batchkeyset.NewPrimitiveKeySet[int64]), r, rep, sh, n, special["int64"])
	c16Run(c16Prim[float32]("float32").with("NewPrimitiveKeySet", batchkeyset.NewPrimitiveKeySet[float32]), r, rep, sh, n, special["float32"])
	c16Run(c16Prim[float64]("float64").with("NewPrimitiveKeySet", batchkeyset.NewPrimitiveKeySet[float64]), r, rep, sh, n, special["float64"])
	c16Run(c16Prim[bool]("bool").with("NewPrimitiveKeySet", batchkeyset.NewPrimitiveKeySet[bool]), r, rep, sh, (n+1)/2, special["bool"])
	c16Run(c16Prim[string]("string").with("NewPrimitiveKeySet", batchkeyset.NewPrimitiveKeySet[string]), r, rep, sh, n, special["string"])
	c16Run(c16Generated[fam.Tlong]("Tlong", 0).with("NewSimpleKeySet", batchkeyset.NewSimpleKeySet[fam.Tlong]), r, rep, sh, n, special["Tlong"])
	c16Run(c16Generated[fam.Tstr]("Tstr", 0).with("NewSimpleKeySet", batchkeyset.NewSimpleKeySet[fam.Tstr]), r, rep, sh, n, special["Tstr"])
	c16Run(c16Generated[fam.Color]("Color", 0).with("NewSimpleKeySet", batchkeyset.NewSimpleKeySet[fam.Color]), r, rep, sh, (n+1)/2, special["Color"])
	c16Run(c16Generated[*fam.Fx4]("Fx4", 0).with("NewSimpleKeySet", batchkeyset.NewSimpleKeySet[*fam.Fx4]), r, rep, sh, n, special["Fx4"])
	c16Run(c16Generated[*fam.Inner]("Inner", 0).with("NewSimpleKeySet", batchkeyset.NewSimpleKeySet[*fam.Inner]), r, rep, sh, n, special["Inner"])
	// a record key whose fields have schema defaults (the caller may leave them unset; the echoed key is decoded with them filled in)
	c16Run(c16Generated[*fam.Dflt]("Dflt", 0).with("NewSimpleKeySet", batchkeyset.NewSimpleKeySet[*fam.Dflt]), r, rep, sh, (n+1)/2, special["Dflt"])
	c16Run(c16Generated[*fam.CK]("CK", 1).with("NewComplexKeySet", batchkeyset.NewComplexKeySet[*fam.CK]), r, rep, sh, 2*n, special["CK"])
	c16RunSet(c16Prim[[]byte]("bytes").with("NewBytesKeySet", batchkeyset.NewBytesKeySet), r, rep, sh, n, special["bytes"], nil, nil)
	sh.Close()
	rep.Shards = sh.Files
	rep.Write(cfg.Out)
}

// replay: {"case": {"type": T, "keys": [...]}} -> that key list as the only (special) scenario of its type
func c16ReplaySpecial(path string) map[string][][]*Val {
	b, err := os.ReadFile(path)
	if err != nil {
		panic(err)
	}
	var rp struct {
		Case struct {
			Type string `json:"type"`
			Keys []*Val `json:"keys"`
		} `json:"case"`
	}
	if err := json.Unmarshal(b, &rp); err != nil {
		panic(err)
	}
	for _, k := range rp.Case.Keys {
		k.c10Unfix()
	}
	return map[string][][]*Val{rp.Case.Type: {rp.Case.Keys}}
}

// does some key of the list leave a field that has a schema default unset (at any depth of record-typed fields)?
func c16UnsetDefault(t RType, keys []*Val) bool {
	var unset func(t RType, v *Val) bool
	unset = func(t RType, v *Val) bool {
		if v == nil || t.Reference == nil {
			return false
		}
		n := schema.Types[t.Reference.Name]
		if n == nil || n.Kind != "record" {
			return false
		}
		for i, inc := range n.Includes {
			if i < len(v.Incs) && unset(ref(inc), v.Incs[i]) {
				return true
			}
		}
		for i, f := range n.Fields {
			if i >= len(v.Fields) {
				break
			}
			if f.DefaultValue != nil && v.Fields[i] == nil {
				return true
			}
			if unset(f.Type, v.Fields[i]) {
				return true
			}
		}
		return false
	}
	for _, k := range keys {
		if unset(t, k) {
			return true
		}
	}
	return false
}
