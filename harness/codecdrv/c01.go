package main

import (
	"encoding/json"
	"fmt"
	"io"
	"math"
	"reflect"
	"sort"
	"strconv"
	"strings"
	"sync"

	"verifgen/hx"
)

// the correspondence glue the cases are evaluated with.  The v2 WriteMap buffers the entries of an object and emits them in key
// order, so two encodings of one value must be the same BYTES; the root WriteMap streams the entries in the order the generated
// code supplies them (Go map order for maps), so there two encodings are compared modulo the order of object members.
const c01Corr = "CodecCorr"

var c01MemberOrderFixed = strings.HasPrefix(c01Corr, "Codec")

// C01: round trip of valid values through the five wire formats
func runC01(cfg *hx.Config) {
	rep := hx.NewReport("schema family (named types through the REAL generator) x seeded values (sizes 0-3 per container, depth <= 3, byte pool weighted " +
		"towards every ROR2/JSON/URL metacharacter, control bytes, 0x80-0xFF, multi-byte UTF-8, U+2028, empty strings/containers, int extremes, float " +
		"specials and both sides of the 1e21/1e-7 switches) plus a single-byte sweep (each of the 256 bytes as string value, map key, bytes value) and a float sweep (every " +
		"float32 / float64 of the boundary pools: float32 values whose shortest float32 text differs from their float64 text, 2^24 neighbours, MaxFloat32, subnormals, " +
		"double-rounding witnesses; compared bit for bit) x 5 wire formats; then HISTORIES in the same process: failed encodes of invalid values (union with no / two members, " +
		"unknown enum constants) and failed decodes of truncated documents, each followed by the round trip of earlier values whose output must not have changed; then the same " +
		"values encoded concurrently from several goroutines, with and without interleaved failing encodes. " +
		"non-trivial = the value holds a string/key/bytes with a byte outside [A-Za-z0-9_] or a float; distinct by (type, value)")
	sh := hx.NewShards(cfg.Out, header(), c01Corr, 100)
	r := hx.NewRand(cfg.Seed)
	n := 100
	if cfg.Thorough() {
		n = 2500
	}
	for _, tname := range schema.Top {
		for i := 0; i < n; i++ {
			o := genOpts{utf8: r.Chance(85), depth: 1 + r.Intn(3)}
			runRoundTrip(tname, schema.gen(r, ref(tname), o), "", rep, sh)
		}
	}
	// single-byte sweep
	for b := 0; b < 256; b++ {
		s := string([]byte{byte(b)})
		prims := &Val{K: "rec", Fields: []*Val{{K: "int", Z: 1}, {K: "long", Z: 2}, {K: "float", Bits: 0}, {K: "double", Bits: 0}, {K: "bool", B: true}, {K: "str", S: s}, {K: "bytes", S: s}}}
		runRoundTrip("Prims", prims, "sweep", rep, sh)
		coll := &Val{K: "rec", Fields: []*Val{
			{K: "arr", Items: []*Val{{K: "str", S: s}, {K: "str", S: "x" + s + "y"}}},
			{K: "map", Keys: []string{s, "k" + s}, Items: []*Val{{K: "str", S: s}, {K: "str", S: ""}}},
			{K: "map", Keys: []string{s}, Items: []*Val{{K: "arr", Items: []*Val{{K: "rec", Fields: []*Val{{K: "int", Z: 7}, {K: "str", S: s}}}}}}},
			{K: "arr", Items: []*Val{{K: "map", Keys: []string{s}, Items: []*Val{{K: "long", Z: -5}}}}},
			{K: "arr", Items: []*Val{{K: "bytes", S: s}}},
			nil}}
		runRoundTrip("Coll", coll, "sweep", rep, sh)
		u := &Val{K: "union", Fields: []*Val{nil, {K: "str", S: s}, nil, nil, nil}}
		runRoundTrip("U", u, "sweep", rep, sh)
	}
	// float sweep: every float32 / float64 of the boundary pools once, bit-exact through every format
	c01CheckFloatPools()
	for i := 0; i < len(f32s) || i < len(f64s); i++ {
		f32, f64 := f32s[i%len(f32s)], f64s[i%len(f64s)]
		prims := &Val{K: "rec", Fields: []*Val{{K: "int", Z: 1}, {K: "long", Z: 2}, {K: "float", Bits: uint64(math.Float32bits(f32))}, {K: "double", Bits: math.Float64bits(f64)},
			{K: "bool", B: false}, {K: "str", S: "f"}, {K: "bytes", S: ""}}}
		runRoundTrip("Prims", prims, "float-sweep", rep, sh)
		rep.Count("float-sweep")
	}
	// wide collections: element counts around 64 / 128 and documents with very many (empty) containers - a codec's behaviour must
	// not depend on how many items, siblings or nested containers a value has (up to 130 items the model is evaluated too; beyond
	// that the round-trip oracle alone decides: the model's fuel bounds the item count it can walk)
	for _, n := range []int{63, 64, 65, 66, 129, 300, 1100, 2100} {
		var modelSh *hx.Shards
		if n <= 130 {
			modelSh = sh
		}
		strs, maps, inners, kids := []*Val{}, []*Val{}, []*Val{}, []*Val{}
		for i := 0; i < n; i++ {
			strs = append(strs, &Val{K: "str", S: fmt.Sprintf("s%d", i)})
			m := &Val{K: "map"}
			if i%3 == 0 {
				m.Keys, m.Items = []string{"k"}, []*Val{{K: "long", Z: int64(i)}}
			}
			maps = append(maps, m)
			inners = append(inners, &Val{K: "rec", Fields: []*Val{{K: "int", Z: int64(i)}, nil}})
			kids = append(kids, &Val{K: "rec", Fields: []*Val{{K: "int", Z: int64(i)}, nil, {K: "arr"}}})
		}
		coll := &Val{K: "rec", Fields: []*Val{{K: "arr", Items: strs}, {K: "map"}, {K: "map", Keys: []string{"k"}, Items: []*Val{{K: "arr", Items: inners}}}, {K: "arr", Items: maps}, nil, nil}}
		runRoundTrip("Coll", coll, fmt.Sprintf("wide-%d", n), rep, modelSh)
		rec := &Val{K: "rec", Fields: []*Val{{K: "int", Z: 1}, nil, {K: "arr", Items: kids}}}
		runRoundTrip("Rec", rec, fmt.Sprintf("wide-%d", n), rep, modelSh)
		rep.Count("wide-collections")
	}
	runHistories(cfg, r, rep, sh)
	runConcurrent(cfg, r, rep)
	sh.Close()
	rep.Shards = sh.Files
	rep.Write(cfg.Out)
}

// ---- histories: encode and decode must be functions of their argument alone

// the first round trip of a value in this process (before any failed operation): what every writer produced
type c01Ent struct {
	tname string
	v     *Val
	out   [5]string
	cls   [5]string
}

var c01Seen []*c01Ent

// types that can hold a constraint violation (C11): encoding such a value FAILS, possibly after sibling entries were written
var c01FailTypes = []string{"WithU", "Big", "U", "UN", "Opts", "DOuter", "Color"}

func c01Invalid(r *hx.Rand) (string, *Val) {
	for try := 0; try < 40; try++ {
		tname := c01FailTypes[r.Intn(len(c01FailTypes))]
		if _, ok := registry[tname]; !ok {
			continue
		}
		v := schema.gen(r, ref(tname), genOpts{utf8: true, invalid: true, depth: 1 + r.Intn(3)})
		if !schema.valid(ref(tname), v) {
			return tname, v
		}
	}
	return "", nil
}

// a failing operation on an unrelated value: its outcome is not part of the claim, it only precedes what is checked
func c01FailingStep(r *hx.Rand, rep *hx.Report) (histStep, bool) {
	if r.Chance(25) && len(c01Seen) > 0 {
		// a failed decode: a truncated document
		e := c01Seen[r.Intn(len(c01Seen))]
		f := r.Intn(len(formats))
		if e.cls[f] == "ok" && len(e.out[f]) > 1 {
			data := e.out[f][:1+r.Intn(len(e.out[f])-1)]
			oc, _ := decodeVal(e.tname, f, data, nil, 0)
			rep.Count("history-step=dec-" + oc.Class)
			return histStep{Op: "dec", Type: e.tname, Format: formats[f], Data: data, Outcome: oc}, true
		}
	}
	tname, v := c01Invalid(r)
	if v == nil {
		return histStep{}, false
	}
	ptr := reflect.New(registry[tname])
	schema.toGo(ref(tname), v, ptr.Elem())
	f := r.Intn(len(formats))
	_, oc := encode(ptr, f, nil)
	rep.Count("history-step=enc-" + oc.Class)
	return histStep{Op: "enc", Type: tname, Format: formats[f], Value: v.fixJSON(), Outcome: oc}, true
}

func runHistories(cfg *hx.Config, r *hx.Rand, rep *hx.Report, sh *hx.Shards) {
	n := 150
	if cfg.Thorough() {
		n = 3000
	}
	if len(c01Seen) == 0 {
		return
	}
	firsts := append([]*c01Ent{}, c01Seen...)
	for h := 0; h < n; h++ {
		var hist []histStep
		for k := 0; k < 1+r.Intn(3); k++ {
			if st, ok := c01FailingStep(r, rep); ok {
				hist = append(hist, st)
			}
		}
		if len(hist) == 0 {
			continue
		}
		for k := 0; k < 2; k++ {
			e := firsts[r.Intn(len(firsts))]
			// every 10th history is also a case for the model (the bytes after the failed operation against the model encoder)
			var shx *hx.Shards
			if h%10 == 0 && len(e.out[0]) < 20000 {
				// (the very wide values are oracle-only: the model's fuel / coqc's stack bound the size of a case)
				shx = sh
			}
			runRoundTripAfter(e, hist, rep, shx)
		}
		rep.Count("histories")
	}
}

// the same values, encoded from several goroutines at once (fresh Go values per goroutine; some goroutines interleave failing
// encodes): every output must be what the sequential run produced
func runConcurrent(cfg *hx.Config, r *hx.Rand, rep *hx.Report) {
	const G = 8
	per := 60
	if cfg.Thorough() {
		per = 1500
	}
	if len(c01Seen) == 0 {
		return
	}
	type item struct {
		e     *c01Ent // a seen value, or
		tname string  // an invalid one
		v     *Val
	}
	type diff struct {
		g, i, f int
		out     string
		cls     string
	}
	work := make([][]item, G)
	for g := range work {
		for i := 0; i < per; i++ {
			if g%2 == 1 && i%3 == 0 {
				if tname, v := c01Invalid(r); v != nil {
					work[g] = append(work[g], item{tname: tname, v: v})
					continue
				}
			}
			// neighbouring goroutines share most of their values
			work[g] = append(work[g], item{e: c01Seen[(r.Intn(64)+i*7)%len(c01Seen)]})
		}
	}
	var mu sync.Mutex
	var diffs []diff
	var wg sync.WaitGroup
	start := make(chan struct{})
	for g := 0; g < G; g++ {
		wg.Add(1)
		go func(g int) {
			defer wg.Done()
			<-start
			for i, it := range work[g] {
				if it.e == nil {
					ptr := reflect.New(registry[it.tname])
					schema.toGo(ref(it.tname), it.v, ptr.Elem())
					encode(ptr, (g+i)%len(formats), nil)
					continue
				}
				ptr := reflect.New(registry[it.e.tname])
				schema.toGo(ref(it.e.tname), it.e.v, ptr.Elem())
				for f := range formats {
					out, oc := encode(ptr, f, nil)
					if oc.Class != it.e.cls[f] || (oc.Class == "ok" && !sameWire(f, out, it.e.out[f])) {
						mu.Lock()
						diffs = append(diffs, diff{g, i, f, out, oc.Class})
						mu.Unlock()
					}
				}
			}
		}(g)
	}
	close(start)
	wg.Wait()
	sort.Slice(diffs, func(a, b int) bool {
		if diffs[a].g != diffs[b].g {
			return diffs[a].g < diffs[b].g
		}
		if diffs[a].i != diffs[b].i {
			return diffs[a].i < diffs[b].i
		}
		return diffs[a].f < diffs[b].f
	})
	rep.Evaluations += G * per
	rep.CountN("concurrent-encodes", G*per)
	for _, d := range diffs {
		e := work[d.g][d.i].e
		var others []histStep
		for _, it := range work[d.g|1] { // an odd goroutine: those interleave the failing encodes
			if it.e == nil && len(others) < 3 {
				others = append(others, histStep{Op: "enc", Type: it.tname, Format: "any", Value: it.v.fixJSON(), Outcome: outcome{Class: "err"}})
			}
		}
		cd := caseDesc{Mode: "c01", Type: e.tname, Note: fmt.Sprintf("encoded concurrently by %d goroutines (every second one interleaves failing encodes of invalid values such as those listed under history)", G),
			History: others,
			Ops: []opDesc{{Op: "enc", Format: formats[d.f], Value: e.v.fixJSON(), Data: d.out, Outcome: outcome{Class: d.cls, Text: "sequential output: " + strconv.Quote(e.out[d.f])}}}}
		rep.Fail("history:concurrent-encode-differs:"+wireFamily(d.f), "a value encoded while other goroutines encode does not produce the output of the sequential run",
			"v2/restlicodec "+formats[d.f], cd, strconv.Quote(d.out))
	}
}

func wireFamily(f int) string {
	if f >= 2 {
		return "ror2-" + formats[f]
	}
	return "json"
}

// are two outputs of writer f the same document (v2: the same bytes; root: modulo the order of object members)
func sameWire(f int, a, b string) bool {
	if a == b {
		return true
	}
	if c01MemberOrderFixed {
		return false
	}
	if f <= 1 {
		return canonJSON(a) == canonJSON(b)
	}
	return canonROR2(a) == canonROR2(b)
}

func canonJSON(s string) string {
	dec := json.NewDecoder(strings.NewReader(s))
	dec.UseNumber()
	var x interface{}
	if dec.Decode(&x) != nil {
		return "!raw:" + s
	}
	if _, err := dec.Token(); err != io.EOF {
		return "!raw:" + s
	}
	b, err := json.Marshal(x) // object members in key order, numbers as written
	if err != nil {
		return "!raw:" + s
	}
	return string(b)
}

// ROR2 text with the entries of every (k:v,...) in key order; the raw text when it does not parse
func canonROR2(s string) string {
	i := 0
	var value func() (string, bool)
	value = func() (string, bool) {
		switch {
		case strings.HasPrefix(s[i:], "List("):
			i += 5
			var items []string
			for i < len(s) && s[i] != ')' {
				x, ok := value()
				if !ok {
					return "", false
				}
				items = append(items, x)
				if i < len(s) && s[i] == ',' {
					i++
				}
			}
			if i >= len(s) {
				return "", false
			}
			i++
			return "List(" + strings.Join(items, ",") + ")", true
		case i < len(s) && s[i] == '(':
			i++
			type ent struct{ k, v string }
			var ents []ent
			for i < len(s) && s[i] != ')' {
				j := strings.IndexByte(s[i:], ':')
				if j < 0 {
					return "", false
				}
				k := s[i : i+j]
				i += j + 1
				x, ok := value()
				if !ok {
					return "", false
				}
				ents = append(ents, ent{k, x})
				if i < len(s) && s[i] == ',' {
					i++
				}
			}
			if i >= len(s) {
				return "", false
			}
			i++
			sort.SliceStable(ents, func(a, b int) bool { return ents[a].k < ents[b].k })
			parts := make([]string, len(ents))
			for n, e := range ents {
				parts[n] = e.k + ":" + e.v
			}
			return "(" + strings.Join(parts, ",") + ")", true
		}
		j := i
		for i < len(s) && s[i] != ',' && s[i] != ')' && s[i] != '(' {
			i++
		}
		return s[j:i], true
	}
	out, ok := value()
	if !ok || i != len(s) {
		return "!raw:" + s
	}
	return out
}

// the boundary pools must really contain the classes the rule names (a constant that no longer belongs to its class is a
// mistake of this driver, not of the implementation)
func c01CheckFloatPools() {
	differ, witness := 0, 0
	for _, f := range f32s {
		f64 := float64(f)
		if f64 != f64 || math.IsInf(f64, 0) {
			continue
		}
		short := strconv.FormatFloat(f64, 'g', -1, 32)
		if short != strconv.FormatFloat(f64, 'g', -1, 64) {
			differ++
		}
		if p, err := strconv.ParseFloat(short, 64); err == nil && float32(p) != f {
			witness++
		}
	}
	if differ < 8 || witness < 2 {
		panic(fmt.Sprintf("c01: float32 pool lost its classes (shortest32 != shortest64: %d, double-rounding witnesses: %d)", differ, witness))
	}
}

func runRoundTrip(tname string, v *Val, note string, rep *hx.Report, sh *hx.Shards) {
	e := &c01Ent{tname: tname, v: v}
	c01Seen = append(c01Seen, e)
	roundTrip(e, note, nil, true, rep, sh)
}

// the round trip of an earlier value after the operations of hist: the outputs must be those of the first run, and the
// round-trip property must hold as it did (sh == nil: not a case for the model)
func runRoundTripAfter(e *c01Ent, hist []histStep, rep *hx.Report, sh *hx.Shards) {
	roundTrip(e, "after-failed-operations", hist, false, rep, sh)
}

func roundTrip(e *c01Ent, note string, hist []histStep, first bool, rep *hx.Report, sh *hx.Shards) {
	tname, v := e.tname, e.v
	T := registry[tname]
	t := ref(tname)
	c := newCase("c01", tname, schema.coqTy(t))
	c.desc.Note = note
	c.desc.History = hist
	ptr := reflect.New(T)
	schema.toGo(t, v, ptr.Elem())
	utf8ok := allValidUtf8(v)
	valid := schema.valid(t, v)
	for f := range formats {
		out, oc := encode(ptr, f, nil)
		c.enc(f, v, oc, out)
		site := "v2/restlicodec " + formats[f]
		if first {
			e.out[f], e.cls[f] = out, oc.Class
		} else if oc.Class != e.cls[f] || (oc.Class == "ok" && !sameWire(f, out, e.out[f])) {
			one := oneOp(c, tname, f, v, out, oc, nil)
			one.Ops[0].Op = "enc"
			rep.Fail("history:encode-differs-after-failed-operation:"+wireFamily(f), "the encoder's output for a value changed after FAILED operations on unrelated values in the same process "+
				"(encode is not a function of the value alone)", site, one, map[string]string{"first_output": strconv.Quote(e.out[f]), "first_outcome": e.cls[f], "later_output": strconv.Quote(out), "later_outcome": oc.Class})
		}
		if oc.Class == "ok" {
			doc, decodedVal := decodeVal(tname, f, out, nil, 0)
			c.dec(f, out, doc, decodedVal)
			// ---- property oracle (C01), evaluated on the implementation alone
			if valid && (f >= 2 || utf8ok) {
				one := oneOp(c, tname, f, v, out, doc, decodedVal)
				if doc.Class != "ok" {
					rep.Fail(sigRoundTrip(f, "decode-"+doc.Class), "decoding the encoder's output fails", site, one, doc.Text)
				} else {
					want := schema.fillDefaults(t, v)
					if !valEq(decodedVal, want) && valEq(decodedVal, schema.fillDefaultsAsGenerated(t, v)) {
						rep.Fail("roundtrip:included-record-defaults-not-filled", "defaults declared in an included record are not filled when the including record is decoded",
							"v2/codegen/types/record_unmarshaler.go:generateUnmarshaler", one, nil)
					} else if !valEq(decodedVal, want) {
						rep.Fail(sigRoundTrip(f, "value-differs"), "decode(encode(v)) differs from v", site, one, nil)
					} else if !v.hasNaN() {
						back := reflect.New(T)
						schema.toGo(t, decodedVal, back.Elem())
						wantPtr := reflect.New(T)
						schema.toGo(t, want, wantPtr.Elem())
						if eq, ok := callEquals(back, wantPtr); ok && !eq {
							rep.Fail(sigRoundTrip(f, "equals-false"), "the type's Equals rejects decode(encode(v))", site, one, nil)
						}
					}
				}
			}
		} else if oc.Class == "panic" {
			rep.Fail("encode-panic:"+formats[f], "encoder panicked", site, oneOp(c, tname, f, v, "", oc, nil), oc.Text)
		} else if valid {
			rep.Fail("encode-error-on-valid:"+formats[f], "a valid value is rejected by the encoder", site, oneOp(c, tname, f, v, "", oc, nil), oc.Text)
		}
	}
	rep.Evaluations++
	if first {
		rep.Distinct(tname+valKey(v), nontrivial(v))
		rep.Count("type=" + tname)
		rep.Count(fmt.Sprintf("utf8=%v", utf8ok))
		rep.Count(fmt.Sprintf("floats=%d", minInt(len(c.fl)/5, 3)))
		if note == "" && nontrivial(v) {
			rep.Sample(c.describe())
		}
	} else {
		rep.Count("after-failed-operations")
	}
	if sh != nil {
		sh.Add(c.coq(), c.describe())
	}
}

func oneOp(c *cb, tname string, f int, v *Val, data string, oc outcome, decoded *Val) caseDesc {
	d := caseDesc{Mode: c.desc.Mode, Type: tname, Excl: c.desc.Excl, Ign: c.desc.Ign, Note: c.desc.Note, History: c.desc.History}
	d.Ops = []opDesc{{Op: "roundtrip", Format: formats[f], Value: v.fixJSON(), Data: data, Outcome: oc, Decoded: decoded.fixJSON()}}
	return d
}

// signature of a round-trip failure: format family + what went wrong (narrow, stable)
func sigRoundTrip(f int, what string) string {
	fam := "json"
	if f >= 2 {
		fam = "ror2-" + formats[f]
	}
	return "roundtrip:" + fam + ":" + what
}
