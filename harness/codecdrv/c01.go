package main

import (
	"fmt"
	"reflect"

	"verifgen/hx"
)

// C01: round trip of valid values through the five wire formats
func runC01(cfg *hx.Config) {
	rep := hx.NewReport("schema family (named types through the REAL generator) x seeded values (sizes 0-3 per container, depth <= 3, byte pool weighted " +
		"towards every ROR2/JSON/URL metacharacter, control bytes, 0x80-0xFF, multi-byte UTF-8, U+2028, empty strings/containers, int extremes, float " +
		"specials and both sides of the 1e21/1e-7 switches) plus a single-byte sweep (each of the 256 bytes as string value, map key, bytes value) x 5 wire formats. " +
		"non-trivial = the value holds a string/key/bytes with a byte outside [A-Za-z0-9_] or a float; distinct by (type, value)")
	sh := hx.NewShards(cfg.Out, header(), "CodecCorr", 100)
	r := hx.NewRand(cfg.Seed)
	n := 100
	if cfg.Thorough() {
		n = 2500
	}
	for _, tname := range schema.Top {
		for i := 0; i < n; i++ {
			o := genOpts{utf8: r.Chance(85), depth: 1 + r.Intn(3)}
			runRoundTrip(tname, schema.gen(r, ref(tname), o), "", rep, sh)
		}
	}
	// single-byte sweep
	for b := 0; b < 256; b++ {
		s := string([]byte{byte(b)})
		prims := &Val{K: "rec", Fields: []*Val{{K: "int", Z: 1}, {K: "long", Z: 2}, {K: "float", Bits: 0}, {K: "double", Bits: 0}, {K: "bool", B: true}, {K: "str", S: s}, {K: "bytes", S: s}}}
		runRoundTrip("Prims", prims, "sweep", rep, sh)
		coll := &Val{K: "rec", Fields: []*Val{
			{K: "arr", Items: []*Val{{K: "str", S: s}, {K: "str", S: "x" + s + "y"}}},
			{K: "map", Keys: []string{s, "k" + s}, Items: []*Val{{K: "str", S: s}, {K: "str", S: ""}}},
			{K: "map", Keys: []string{s}, Items: []*Val{{K: "arr", Items: []*Val{{K: "rec", Fields: []*Val{{K: "int", Z: 7}, {K: "str", S: s}}}}}}},
			{K: "arr", Items: []*Val{{K: "map", Keys: []string{s}, Items: []*Val{{K: "long", Z: -5}}}}},
			{K: "arr", Items: []*Val{{K: "bytes", S: s}}},
			nil}}
		runRoundTrip("Coll", coll, "sweep", rep, sh)
		u := &Val{K: "union", Fields: []*Val{nil, {K: "str", S: s}, nil, nil, nil}}
		runRoundTrip("U", u, "sweep", rep, sh)
	}
	sh.Close()
	rep.Shards = sh.Files
	rep.Write(cfg.Out)
}

func runRoundTrip(tname string, v *Val, note string, rep *hx.Report, sh *hx.Shards) {
	T := registry[tname]
	t := ref(tname)
	c := newCase("c01", tname, schema.coqTy(t))
	c.desc.Note = note
	ptr := reflect.New(T)
	schema.toGo(t, v, ptr.Elem())
	utf8ok := allValidUtf8(v)
	valid := schema.valid(t, v)
	for f := range formats {
		out, oc := encode(ptr, f, nil)
		c.enc(f, v, oc, out)
		site := "v2/restlicodec " + formats[f]
		if oc.Class == "ok" {
			doc, decodedVal := decodeVal(tname, f, out, nil, 0)
			c.dec(f, out, doc, decodedVal)
			// ---- property oracle (C01), evaluated on the implementation alone
			if valid && (f >= 2 || utf8ok) {
				one := oneOp(c, tname, f, v, out, doc, decodedVal)
				if doc.Class != "ok" {
					rep.Fail(sigRoundTrip(f, "decode-"+doc.Class), "decoding the encoder's output fails", site, one, doc.Text)
				} else {
					want := schema.fillDefaults(t, v)
					if !valEq(decodedVal, want) && valEq(decodedVal, schema.fillDefaultsAsGenerated(t, v)) {
						rep.Fail("roundtrip:included-record-defaults-not-filled", "defaults declared in an included record are not filled when the including record is decoded",
							"v2/codegen/types/record_unmarshaler.go:generateUnmarshaler", one, nil)
					} else if !valEq(decodedVal, want) {
						rep.Fail(sigRoundTrip(f, "value-differs"), "decode(encode(v)) differs from v", site, one, nil)
					} else if !v.hasNaN() {
						back := reflect.New(T)
						schema.toGo(t, decodedVal, back.Elem())
						wantPtr := reflect.New(T)
						schema.toGo(t, want, wantPtr.Elem())
						if eq, ok := callEquals(back, wantPtr); ok && !eq {
							rep.Fail(sigRoundTrip(f, "equals-false"), "the type's Equals rejects decode(encode(v))", site, one, nil)
						}
					}
				}
			}
		} else if oc.Class == "panic" {
			rep.Fail("encode-panic:"+formats[f], "encoder panicked", site, oneOp(c, tname, f, v, "", oc, nil), oc.Text)
		} else if valid {
			rep.Fail("encode-error-on-valid:"+formats[f], "a valid value is rejected by the encoder", site, oneOp(c, tname, f, v, "", oc, nil), oc.Text)
		}
	}
	rep.Evaluations++
	rep.Distinct(tname+valKey(v), nontrivial(v))
	rep.Count("type=" + tname)
	rep.Count(fmt.Sprintf("utf8=%v", utf8ok))
	rep.Count(fmt.Sprintf("floats=%d", minInt(len(c.fl)/5, 3)))
	if note == "" && nontrivial(v) {
		rep.Sample(c.describe())
	}
	sh.Add(c.coq(), c.describe())
}

func oneOp(c *cb, tname string, f int, v *Val, data string, oc outcome, decoded *Val) caseDesc {
	d := caseDesc{Mode: c.desc.Mode, Type: tname, Excl: c.desc.Excl, Ign: c.desc.Ign, Note: c.desc.Note}
	d.Ops = []opDesc{{Op: "roundtrip", Format: formats[f], Value: v.fixJSON(), Data: data, Outcome: oc, Decoded: decoded.fixJSON()}}
	return d
}

// signature of a round-trip failure: format family + what went wrong (narrow, stable)
func sigRoundTrip(f int, what string) string {
	fam := "json"
	if f >= 2 {
		fam = "ror2-" + formats[f]
	}
	return "roundtrip:" + fam + ":" + what
}
