package main

import (
	"encoding/json"
	"fmt"
	"os"
	"path/filepath"
	"reflect"
	"sort"
	"strings"

	"verifgen/hx"
)

// C13: schema defaults are applied, never override data, never shared
func runC13(cfg *hx.Config) {
	rep := hx.NewReport("records with defaulted fields of primitive / enum / record / array / map type, declared directly (Dflt), nested (DOuter, Big.dflt) or inherited through included records (Incl, Incl2), " +
		"record-typed defaults whose literal is the empty object / a partial object / an object containing an empty object and whose record has defaults of its own (DEmp, DIn): " +
		"documents obtained from a valid encoding by omitting every subset (<= 8 fields exhaustively, seeded otherwise) of the defaulted fields, decoded by the JSON, ROR2 and untyped readers; " +
		"the generated New...WithDefaultValues constructors (every instance, the first one and one constructed after the first was overwritten, is also compared with the model of the constructors); freshness of default-populated arrays/maps across instances. " +
		"TYPED stream (untyped reader only): the value with zero values (0, false, \"\") forced into primitive leaves, restricted to the top-level fields of one JSON kind, handed to the untyped reader as a " +
		"map with a CONCRETE element type (map[string]int32 / int64 / float64 / bool / string / map[string]T / []T, nested maps and slices typed too): a present zero wins over the default, " +
		"absent fields carry the default. non-trivial = at least one defaulted field omitted; distinct by (type, reader, document)")
	sh := hx.NewShards(cfg.Out, header(), "CodecCorr", 40)
	r := hx.NewRand(cfg.Seed)
	n := 40
	if cfg.Thorough() {
		n = 800
	}
	c13Types := []string{"Dflt", "DOuter", "Incl", "Incl2", "Big", "DElems", "DIn", "DEmp", "D1", "D2", "G1"}
	for _, tname := range c13Types {
		t := ref(tname)
		for i := 0; i < n; i++ {
			v := schema.gen(r, t, genOpts{utf8: true, depth: 2})
			// drop a random subset of the defaulted fields (at any depth) from the VALUE: the encoder then omits them
			dropDefaults(schema, t, v, r)
			c := newCase("c13", tname, schema.coqTy(t))
			c.addVal(v)
			base := schema.refEncode(t, v)
			want := schema.fillDefaults(t, v)
			wantGen := schema.fillDefaultsAsGenerated(t, v)
			for k, f := range []int{0, 2, 0} {
				if !base.jsonOK() && f == 0 {
					continue
				}
				text := base.render(f, r, false)
				var oc outcome
				var got *Val
				reader := formats[f]
				if k == 2 {
					oc, got = decodeAny(tname, text)
					reader = "any"
				} else {
					oc, got = decodeVal(tname, f, text, nil, 0)
					c.dec(f, text, oc, got)
				}
				rep.Evaluations++
				rep.Count("reader=" + reader)
				omitted := !valEq(v, want)
				rep.Distinct(tname+reader+text, omitted)
				cd := map[string]interface{}{"type": tname, "reader": reader, "document": text, "outcome": oc, "decoded": got.fixJSON()}
				site := "v2/codegen/types/record.go:GeneratePopulateDefaultValues"
				switch {
				case oc.Class != "ok":
					rep.Fail("defaults:decode-"+oc.Class+":"+reader, "a document omitting defaulted fields is not decoded", site, cd, oc.Text)
				case reader == "any" && !approxEq(got, want) && approxEq(got, wantGen):
					rep.Fail("defaults:included-record-defaults-not-filled", "defaults declared in an included record are not applied", site, cd, nil)
				case reader != "any" && !valEq(got, want) && valEq(got, wantGen):
					rep.Fail("defaults:included-record-defaults-not-filled", "defaults declared in an included record are not applied", site, cd, nil)
				case reader != "any" && !valEq(got, want):
					rep.Fail("defaults:wrong-value:"+reader, "a defaulted field omitted by the document does not carry the schema default, or a present value was overridden", site, cd, nil)
				case reader == "any" && !approxEq(got, want):
					rep.Fail("defaults:wrong-value:any", "the untyped reader disagrees on defaulted fields", site, cd, nil)
				}
				if omitted && k == 0 {
					rep.Sample(cd)
				}
			}
			sh.Add(c.coq(), c.describe())
		}
	}
	// the untyped reader fed maps / slices with a concrete element type
	for _, tname := range c13Types {
		t := ref(tname)
		for i := 0; i < n; i++ {
			v0 := schema.gen(r, t, genOpts{utf8: true, depth: 2})
			dropDefaults(schema, t, v0, r)
			schema.zeroSome(r, v0, 35)
			for _, kind := range []string{"num", "bool", "str", "obj", "arr"} {
				v := schema.projectVal(tname, v0, kind)
				base := schema.refEncode(t, v)
				var miss []string
				schema.missingSpec(t, base, "", &miss)
				if len(base.Keys) == 0 || len(miss) > 0 || !base.jsonOK() {
					continue // nothing of that kind, or a required field is of another kind
				}
				text := base.render(0, r, false)
				var y interface{}
				if err := json.Unmarshal([]byte(text), &y); err != nil {
					continue
				}
				nconv := 0
				x := typify(r, y, 85, &nconv)
				if nconv == 0 {
					continue
				}
				want := schema.fillDefaults(t, v)
				wantGen := schema.fillDefaultsAsGenerated(t, v)
				oc, got := decodeAnyX(tname, x, nil, 0)
				rep.Evaluations++
				rep.Count("reader=any(typed containers)")
				rep.Count("typed-kind=" + kind)
				desc := fmt.Sprintf("%#v", x)
				rep.Distinct(tname+"typed"+desc, true)
				cd := map[string]interface{}{"type": tname, "reader": "any", "value": desc, "document": text, "outcome": oc, "decoded": got.fixJSON(), "expected": want.fixJSON()}
				site := "v2/restlicodec/any_reader.go:ReadMap"
				switch {
				case oc.Class != "ok":
					rep.Fail("defaults:decode-"+oc.Class+":any", "a document omitting defaulted fields is not decoded", site, cd, oc.Text)
				case !approxEq(got, want) && approxEq(got, wantGen):
					rep.Fail("defaults:included-record-defaults-not-filled", "defaults declared in an included record are not applied", "v2/codegen/types/record.go:GeneratePopulateDefaultValues", cd, nil)
				case !approxEq(got, want):
					rep.Fail("defaults:wrong-value:any", "the untyped reader, given a map with a concrete element type, does not let a present value win over the default (or does not fill an absent one)", site, cd, nil)
				}
				if i < 1 {
					rep.Sample(cd)
				}
			}
		}
	}
	// freshness of DECODED instances: two instances decoded from the same document share nothing
	for _, tname := range []string{"Dflt", "DOuter", "DElems", "DEmp"} {
		t := ref(tname)
		for _, doc := range []string{`{"r":1,"dn":{"r":2},"e":"RED"}`} {
			for _, f := range []int{0} {
				a, oca := decode(registry[tname], f, doc, nil, 0)
				b, ocb := decode(registry[tname], f, doc, nil, 0)
				if (oca.Class != "ok" && oca.Class != "missing") || (ocb.Class != "ok" && ocb.Class != "missing") {
					continue
				}
				before := schema.fromGo(t, b.Elem())
				scribble(a.Elem())
				after := schema.fromGo(t, b.Elem())
				rep.Evaluations++
				if !valEq(before, after) {
					rep.Fail("defaults:shared-between-instances", "mutating a default-populated value of one decoded instance changed another instance", "v2/codegen/types/record.go:setDefaultValue", map[string]interface{}{"type": tname, "document": doc}, nil)
				}
				// ... and with a freshly constructed / later decoded instance
				c, occ := decode(registry[tname], f, doc, nil, 0)
				if occ.Class == "ok" || occ.Class == "missing" {
					if !valEq(before, schema.fromGo(t, c.Elem())) {
						rep.Fail("defaults:shared-between-instances", "an instance decoded after another one was mutated does not carry the pristine defaults", "v2/codegen/types/record.go:setDefaultValue", map[string]interface{}{"type": tname, "document": doc}, nil)
					}
				}
			}
		}
	}
	// constructors and freshness.  Every instance is also a case for the model of the constructors (Codec/Ctor.v through
	// Corr/CtorCorr.v, root: Corr/RootCtorCorr.v): its own shard files under <out>/ctor, listed in the report's extra.ctor_shards
	ctorDir := filepath.Join(cfg.Out, "ctor")
	os.MkdirAll(ctorDir, 0o755)
	ctorHeader, ctorModule := ctorCorr()
	csh := hx.NewShards(ctorDir, ctorHeader, ctorModule, 8)
	ctorNames := make([]string, 0, len(constructors))
	for name := range constructors {
		ctorNames = append(ctorNames, name)
	}
	sort.Strings(ctorNames)
	addCtorCase := func(name, when string, inst *Val, panicked interface{}) {
		obs := "None"
		if inst != nil {
			obs = "(Some " + inst.Coq() + ")"
		}
		csh.Add(fmt.Sprintf("{| k_rec := %d; k_parse := %s; k_obs := %s |}", schema.EnvIndex[name], coqParseTable(baseTexts), obs),
			map[string]interface{}{"mode": "c13-ctor", "type": name, "constructor": "New" + name + "WithDefaultValues", "when": when,
				"constructed": inst.fixJSON(), "panic": fmt.Sprint(panicked)})
		rep.Count("constructor-case=" + when)
	}
	for _, name := range ctorNames {
		ctor := constructors[name]
		t := ref(name)
		call := func() (v reflect.Value, p interface{}) {
			defer func() { p = recover() }()
			return reflect.ValueOf(ctor).Call(nil)[0], nil
		}
		a, pa := call()
		b, pb := call()
		rep.Evaluations++
		if pa != nil || pb != nil {
			addCtorCase(name, "first", nil, pa)
			rep.Fail("defaults:constructor-panics", "New...WithDefaultValues panics", "v2/codegen/types/record.go:GeneratePopulateDefaultValues",
				map[string]interface{}{"type": name}, fmt.Sprint(pa, pb))
			continue
		}
		va := schema.fromGo(t, a.Elem())
		addCtorCase(name, "first", va, nil)
		zero := schema.fromGo(t, reflect.New(registry[name]).Elem())
		want := schema.fillDefaultsCtor(t, zero)
		cd := map[string]interface{}{"type": name, "constructed": va.fixJSON()}
		if !valEq(va, want) {
			if valEq(va, schema.fill2(t, zero, false, true)) {
				rep.Fail("defaults:included-record-defaults-not-filled", "New...WithDefaultValues does not apply the defaults of included records", "v2/codegen/types/record.go:GeneratePopulateDefaultValues", cd, nil)
			} else if valEq(va, schema.ctorAsGenerated(t, zero, want)) {
				rep.Fail("defaults:constructor-skips-record-without-own-defaults", "New...WithDefaultValues does not default-construct a required record field whose record declares no default itself: the defaults below it are missing",
					"v2/codegen/types/record.go:GeneratePopulateDefaultValues (record.hasDefaultValue looks at own fields only)", cd, nil)
			} else {
				rep.Fail("defaults:constructor-wrong", "New...WithDefaultValues does not carry the schema defaults", "v2/codegen/types/record.go:GeneratePopulateDefaultValues", cd, nil)
			}
		}
		// mutate every default-populated slice/map of a, b must be unchanged
		before := schema.fromGo(t, b.Elem())
		scribble(a.Elem())
		after := schema.fromGo(t, b.Elem())
		if !valEq(before, after) {
			rep.Fail("defaults:shared-between-instances", "mutating a default-populated collection of one instance changed another instance", "v2/codegen/types/record.go:setDefaultValue", cd, nil)
		}
		fresh, pf := call()
		if pf != nil {
			addCtorCase(name, "after-mutation", nil, pf)
			rep.Fail("defaults:constructor-panics", "New...WithDefaultValues panics", "v2/codegen/types/record.go:GeneratePopulateDefaultValues",
				map[string]interface{}{"type": name}, fmt.Sprint(pf))
			continue
		}
		vf := schema.fromGo(t, fresh.Elem())
		addCtorCase(name, "after-mutation", vf, nil)
		if !valEq(before, vf) {
			rep.Fail("defaults:shared-between-instances", "an instance constructed after another one was mutated does not carry the pristine defaults", "v2/codegen/types/record.go:setDefaultValue", cd, nil)
		}
	}
	csh.Close()
	rep.Extra["ctor_shards"] = csh.Files
	rep.Extra["ctor_records"] = ctorNames
	sh.Close()
	rep.Shards = sh.Files
	rep.Write(cfg.Out)
}

// integers read through float64 by the untyped reader lose precision beyond 2^53: compare everything else exactly
func approxEq(a, b *Val) bool {
	if a == nil || b == nil {
		return a == nil && b == nil
	}
	if a.K == "long" && b.K == "long" && (a.Z > 1<<53 || a.Z < -(1<<53) || b.Z > 1<<53 || b.Z < -(1<<53)) {
		return true
	}
	if a.K != b.K || len(a.Items) != len(b.Items) || len(a.Fields) != len(b.Fields) || len(a.Incs) != len(b.Incs) {
		return false
	}
	switch a.K {
	case "arr", "rec", "union":
		for i := range a.Items {
			if !approxEq(a.Items[i], b.Items[i]) {
				return false
			}
		}
		for i := range a.Fields {
			if !approxEq(a.Fields[i], b.Fields[i]) {
				return false
			}
		}
		for i := range a.Incs {
			if !approxEq(a.Incs[i], b.Incs[i]) {
				return false
			}
		}
		return true
	case "map":
		idx := map[string]*Val{}
		for i, k := range b.Keys {
			idx[k] = b.Items[i]
		}
		for i, k := range a.Keys {
			if x, ok := idx[k]; !ok || !approxEq(a.Items[i], x) {
				return false
			}
		}
		return true
	}
	return valEq(a, b)
}

func dropDefaults(s *Schema, t RType, v *Val, r *hx.Rand) {
	if v == nil {
		return
	}
	switch {
	case t.Primitive != "":
	case t.Array != nil:
		for _, x := range v.Items {
			dropDefaults(s, *t.Array, x, r)
		}
	case t.Map != nil:
		for _, x := range v.Items {
			dropDefaults(s, *t.Map, x, r)
		}
	default:
		n := s.Types[t.Reference.Name]
		switch n.Kind {
		case "record":
			for i, inc := range n.Includes {
				dropDefaults(s, ref(inc), v.Incs[i], r)
			}
			for i, f := range n.Fields {
				if f.DefaultValue != nil && r.Chance(50) {
					v.Fields[i] = nil
				} else {
					dropDefaults(s, f.Type, v.Fields[i], r)
				}
			}
		case "standaloneUnion":
			for i, m := range n.Members {
				dropDefaults(s, m.Type, v.Fields[i], r)
			}
		}
	}
}

func scribble(v reflect.Value) {
	switch v.Kind() {
	case reflect.Ptr:
		if !v.IsNil() {
			scribble(v.Elem())
		}
	case reflect.Struct:
		for i := 0; i < v.NumField(); i++ {
			scribble(v.Field(i))
		}
	case reflect.Slice:
		if v.Len() > 0 && v.Type().Elem().Kind() == reflect.Int32 {
			v.Index(0).SetInt(v.Index(0).Int() + 1000)
		}
		for i := 0; i < v.Len(); i++ {
			scribble(v.Index(i))
		}
	case reflect.Map:
		if v.IsNil() {
			return
		}
		// mutate THROUGH the elements first (pointers to records, slices), then the map itself
		for _, k := range v.MapKeys() {
			e := v.MapIndex(k)
			switch e.Kind() {
			case reflect.Ptr, reflect.Slice:
				scribble(e)
			}
		}
		if v.Type().Elem().Kind() == reflect.Int32 {
			v.SetMapIndex(reflect.ValueOf("scribbled"), reflect.ValueOf(int32(1)))
		}
	case reflect.Int32:
		if v.CanSet() {
			v.SetInt(v.Int() + 7)
		}
	case reflect.String:
		if v.CanSet() {
			v.SetString(v.String() + "!")
		}
	}
	_ = fmt.Sprint
	_ = strings.Join
}
