package main

import (
	"context"
	"encoding/json"
	"fmt"
	"math"
	"os"
	"os/exec"
	"reflect"
	"runtime/debug"
	"sort"
	"strconv"
	"strings"
	"time"

	"github.com/PapaCharlie/go-restli/v2/restlicodec"
	"verifgen/hx"
)

// Mode cany: the UNTYPED reader (restlicodec.NewInterfaceReader) under the generated unmarshalers of the family, compared with
// the model Codec/AnyReader.v (decA) through Corr/AnyCorr.v.
//   (a) JSON-derived values: the C06 mutation stream (deletions, nulls, unknown fields, permutations) unmarshalled by
//       encoding/json into `any`; oracles: exact missing set, agreement with the JSON reader on the same text
//   (b) hostile native Go values grafted into such trees (or standing alone): nil, typed nil pointers, pointers to values,
//       ints / uints / floats of every width and extreme, strings that parse (or not) as numbers / booleans, []byte and named
//       byte slices, json.Number, channels, funcs, structs, arrays, maps with non-string keys, typed slices and maps;
//       oracle: never a panic; a named byte slice behaves as the []byte with the same content
//   (c) maps / slices of CONCRETE element type (map[string]int32, map[string]bool, map[string]string, []int64, map[string]map[string]int32,
//       ...) built from such trees wherever the members allow it, with zero values forced in and record objects restricted to the
//       members of one JSON kind: oracle: decoded exactly as the map[string]any / []any counterpart, exact missing set; compared with decA
//   (d) pointer chains (2-6 levels, *any, **any) around nodes: compared with decA; a 64-level chain: oracle only
//   (e) CYCLIC values (var p any; p = &p / type loop *loop / two-variable cycles / chains leading into a cycle), alone and grafted
//       into trees, every read under a deadline: oracle only (a cyclic value is not a finite gval term): the call must return - an
//       error or a value - and not hang or panic
//   (f) SELF-CONTAINING maps and slices (a map that is its own member, directly / through one intermediate map / through a slice /
//       through a pointer; a slice that is its own item) under the RECURSIVE record of the family, plus acyclic controls (a
//       sub-value shared several times, prefix slices of one backing array) that must decode as their tree copies: each in a CHILD
//       process of the driver (an unbounded recursion overflows the goroutine stack, which is fatal and cannot be recovered):
//       oracle only: the child must exit normally within the deadline (else any:stack-overflow / any:hang)
// The value handed to the reader is written for the model by toGval, a reflect walk that shares no code with the reader.

type anyBytes []byte
type anyU8 uint8
type anyStr string
type anyKey string
type anyInt int16
type anyF32 float32

var anyTops = []string{"Inner", "Prims", "Opts", "Dflt", "Coll", "WithU", "Incl", "Incl2", "Rec", "Big", "IX", "IY", "U", "UN", "DOuter", "DElems", "Color", "Fx4", "DIn", "DEmp", "Wide", "Alias2", "D1", "ONest"}

type anyLoop *anyLoop

// ---- Go value -> Coq gval term (map entries sorted by key)
type gvalCtx struct {
	texts []string   // every string / byte-slice content (for the ParseFloat table)
	conv  []string   // numeric conversions of the hardware, for the model's own IEEE functions
	kinds map[string]int
}

func (c *gvalCtx) text(s string) {
	if len(s) <= 64 {
		c.texts = append(c.texts, s)
	}
}
func (c *gvalCtx) convInt(z int64) {
	c.conv = append(c.conv, fmt.Sprintf("(0, (%d)%%Z, 0%%N, %d%%N)", z, math.Float64bits(float64(z))))
	c.conv = append(c.conv, fmt.Sprintf("(1, (%d)%%Z, 0%%N, %d%%N)", z, math.Float32bits(float32(z))))
}
func (c *gvalCtx) convFloat(f float64) {
	c.conv = append(c.conv, fmt.Sprintf("(2, 0%%Z, %d%%N, %d%%N)", math.Float64bits(f), math.Float32bits(float32(f))))
}

func (c *gvalCtx) toGval(x interface{}) string {
	if x == nil {
		c.kinds["nil"]++
		return "GNil"
	}
	return c.ofValue(reflect.ValueOf(x))
}

func (c *gvalCtx) ofValue(v reflect.Value) string {
	switch v.Kind() {
	case reflect.Bool:
		c.kinds["bool"]++
		return "(GBool " + hx.CoqBool(v.Bool()) + ")"
	case reflect.Int, reflect.Int8, reflect.Int16, reflect.Int32, reflect.Int64:
		c.kinds["int"+strconv.Itoa(v.Type().Bits())]++
		c.convInt(v.Int())
		return fmt.Sprintf("(GInt (%d)%%Z %d)", v.Int(), v.Type().Bits())
	case reflect.Float32, reflect.Float64:
		c.kinds["float"+strconv.Itoa(v.Type().Bits())]++
		c.convFloat(v.Float())
		return fmt.Sprintf("(GFloat %d%%N %s)", math.Float64bits(v.Float()), hx.CoqBool(v.Kind() == reflect.Float32))
	case reflect.String:
		c.kinds["string"]++
		c.text(v.String())
		return "(GStr " + hx.CoqBytes(v.String()) + ")"
	case reflect.Slice:
		if v.Type().Elem().Kind() == reflect.Uint8 {
			if v.Type() == reflect.TypeOf([]byte(nil)) {
				c.kinds["[]byte"]++
			} else {
				c.kinds["named-bytes"]++
			}
			b := make([]byte, v.Len())
			for i := range b {
				b[i] = byte(v.Index(i).Uint())
			}
			c.text(string(b))
			return "(GBytes " + hx.CoqBytes(string(b)) + ")"
		}
		c.kinds["slice"]++
		items := make([]string, v.Len())
		for i := range items {
			items[i] = c.elem(v.Index(i))
		}
		return "(GArr [" + strings.Join(items, "; ") + "])"
	case reflect.Map:
		if v.Type().Key().Kind() != reflect.String {
			c.kinds["map-nonstring-key"]++
			return "GOther"
		}
		c.kinds["map"]++
		keys := v.MapKeys()
		sort.Slice(keys, func(i, j int) bool { return keys[i].String() < keys[j].String() })
		items := make([]string, len(keys))
		for i, k := range keys {
			items[i] = "(" + hx.CoqBytes(k.String()) + ", " + c.elem(v.MapIndex(k)) + ")"
		}
		return "(GMap [" + strings.Join(items, "; ") + "])"
	case reflect.Ptr:
		if v.IsNil() {
			c.kinds["nil-pointer"]++
			return "GNilPtr"
		}
		c.kinds["pointer"]++
		if v.Elem().Kind() == reflect.Interface {
			return "(GPtr GOther)" // pointer to an interface: Elem() has kind Interface
		}
		return "(GPtr " + c.ofValue(v.Elem()) + ")"
	}
	c.kinds["other:"+v.Kind().String()]++
	return "GOther"
}

// an element of a slice / map as the reader sees it: v.Index(i).Interface()
func (c *gvalCtx) elem(v reflect.Value) string {
	if v.Kind() == reflect.Interface {
		if v.IsNil() {
			c.kinds["nil"]++
			return "GNil"
		}
		return c.ofValue(v.Elem())
	}
	return c.ofValue(v)
}

// a stable description (no addresses) for the evidence
func descAny(x interface{}) string {
	if x == nil {
		return "nil"
	}
	return descValue(reflect.ValueOf(x))
}
func descValue(v reflect.Value) string {
	t := v.Type().String()
	switch v.Kind() {
	case reflect.Bool:
		return fmt.Sprintf("%s(%v)", t, v.Bool())
	case reflect.Int, reflect.Int8, reflect.Int16, reflect.Int32, reflect.Int64:
		return fmt.Sprintf("%s(%d)", t, v.Int())
	case reflect.Uint, reflect.Uint8, reflect.Uint16, reflect.Uint32, reflect.Uint64, reflect.Uintptr:
		return fmt.Sprintf("%s(%d)", t, v.Uint())
	case reflect.Float32, reflect.Float64:
		return fmt.Sprintf("%s(%s /*bits %#x*/)", t, strconv.FormatFloat(v.Float(), 'g', -1, 64), math.Float64bits(v.Float()))
	case reflect.String:
		return fmt.Sprintf("%s(%q)", t, v.String())
	case reflect.Slice, reflect.Array:
		if v.Kind() == reflect.Slice && v.IsNil() {
			return t + "(nil)"
		}
		if v.Type().Elem().Kind() == reflect.Uint8 {
			b := make([]byte, v.Len())
			for i := range b {
				b[i] = byte(v.Index(i).Uint())
			}
			return fmt.Sprintf("%s(%q)", t, string(b))
		}
		items := make([]string, v.Len())
		for i := range items {
			items[i] = descElem(v.Index(i))
		}
		return t + "{" + strings.Join(items, ", ") + "}"
	case reflect.Map:
		if v.IsNil() {
			return t + "(nil)"
		}
		keys := v.MapKeys()
		sort.Slice(keys, func(i, j int) bool { return fmt.Sprint(keys[i].Interface()) < fmt.Sprint(keys[j].Interface()) })
		items := make([]string, len(keys))
		for i, k := range keys {
			items[i] = fmt.Sprintf("%v: %s", descElem(k), descElem(v.MapIndex(k)))
		}
		return t + "{" + strings.Join(items, ", ") + "}"
	case reflect.Ptr:
		if v.IsNil() {
			return "(" + t + ")(nil)"
		}
		return "&" + descElem(v.Elem())
	}
	return t + "{...}"
}
func descElem(v reflect.Value) string {
	if v.Kind() == reflect.Interface {
		if v.IsNil() {
			return "nil"
		}
		return descValue(v.Elem())
	}
	return descValue(v)
}

// ---- hostile values
func ptrTo(x interface{}) interface{} {
	v := reflect.ValueOf(x)
	p := reflect.New(v.Type())
	p.Elem().Set(v)
	return p.Interface()
}

func hostileInts(r *hx.Rand) interface{} {
	l := []interface{}{int(5), int(-1), int8(-128), int8(127), int16(-32768), int16(300), int32(math.MinInt32), int32(math.MaxInt32), int32(7),
		int64(math.MinInt64), int64(math.MaxInt64), int64(4294967297), int64(-2147483649), int64(2147483648), int64(2147483647),
		int64(1)<<53 + 1, int64(16777217), int64(-16777219), int64(1)<<62 + 1, anyInt(-3), int64(0),
		uint(5), uint8(200), uint16(1), uint32(7), uint64(math.MaxUint64), uintptr(9), anyU8(3)}
	if r.Chance(30) {
		return int64(r.U64())
	}
	return l[r.Intn(len(l))]
}

func hostileFloats(r *hx.Rand) interface{} {
	l := []interface{}{float32(1.5), float32(-2.75), float64(1.9), float64(-1.9), float64(0.5), math.Copysign(0, -1), float64(7), float64(-7),
		float64(1e19), float64(-1e19), float64(4294967297), float64(2147483648), float64(-2147483649), float64(2147483647), float64(-2147483648),
		float64(2147483647.9), float64(-2147483648.9), float64(9223372036854775807), float64(-9223372036854775808), float64(9223372036854774784),
		math.NaN(), math.Inf(1), math.Inf(-1), float32(math.MaxFloat32), float64(math.MaxFloat64), float64(math.SmallestNonzeroFloat64),
		float32(math.NaN()), float32(math.Inf(-1)), float64(1e-310), float64(16777217), float64(3.4028235677973366e38), float64(3.4028234663852886e38),
		float64(1e-46), float64(1.401298464324817e-45), float64(0.7e-45), float64(1.1754942e-38), anyF32(0.1), float64(0.1), float64(1) / 3,
		math.Float64frombits(0x7ff0000000000001), math.Float64frombits(0xfff8000000abcdef)}
	if r.Chance(30) {
		return math.Float64frombits(r.U64())
	}
	if r.Chance(10) {
		return math.Float32frombits(uint32(r.U64()))
	}
	return l[r.Intn(len(l))]
}

func hostileStrings(r *hx.Rand) interface{} {
	l := []interface{}{"12", "-7", "+5", "0x10", "1_0", "9223372036854775807", "9223372036854775808", "-9223372036854775808", "4294967297", "2147483648",
		"1.5", "1e3", "NaN", "Inf", "-inf", "infinity", "+Infinity", "1e400", "0x1p-2", "true", "T", "FALSE", "0", "1", "tRue", "", "abc", "RED", "\xff", "é",
		"Ā", "abÿ", anyStr("12"), anyStr("true"), json.Number("12"), json.Number("1.5"), json.Number("1e400"), json.Number(""), " 1", "1 "}
	return l[r.Intn(len(l))]
}

// byte slices, with a twin in which every named byte-slice type is replaced by []byte of the same content
func hostileBytes(r *hx.Rand) (interface{}, interface{}) {
	contents := []string{"12", "abc", "", "\xff\x00", "true", "1.5", `"x"`, "abcd", "RED"}
	s := contents[r.Intn(len(contents))]
	switch r.Intn(6) {
	case 0:
		return []byte(s), []byte(s)
	case 1:
		return json.RawMessage(s), []byte(s)
	case 2:
		return anyBytes(s), []byte(s)
	case 3:
		u := make([]anyU8, len(s))
		for i := range u {
			u[i] = anyU8(s[i])
		}
		return u, []byte(s)
	case 4:
		return []byte(nil), []byte(nil)
	default:
		return ptrTo(json.RawMessage(s)), ptrTo([]byte(s))
	}
}

func hostileOther(r *hx.Rand) interface{} {
	one := 1
	str := "abc"
	f := 2.5
	pone := &one
	var iface interface{} = "s"
	l := []interface{}{nil, (*int)(nil), (*string)(nil), (*map[string]interface{})(nil), (*[]interface{})(nil), (*interface{})(nil),
		&one, &str, &f, &pone, &iface, ptrTo(int8(-5)), ptrTo(true), ptrTo(map[string]interface{}{}), ptrTo([]interface{}{}),
		make(chan int), func() {}, struct{}{}, struct{ A int }{1}, [3]int{1, 2, 3}, [2]byte{1, 2}, complex(1, 2), true, false,
		map[int]interface{}{1: 2}, map[anyKey]interface{}{"a": 1}, map[string]int{"a": 1, "r": 2}, map[string]*int{"a": nil, "r": &one}, map[string]interface{}{"a": nil},
		map[interface{}]interface{}{"a": 1}, map[bool]interface{}{}, map[string]interface{}(nil), map[string]string{"r": "1", "s": "x"}, map[string][]byte{"b": nil, "s": []byte("x")},
		[]int{1, 2}, []string{"a", "1"}, []interface{}{nil}, []*int{nil, &one}, [][]byte{[]byte("a")}, []float64{1.5}, []interface{}(nil), []interface{}{}, []int8{1},
		[]map[string]interface{}{{}, nil}, []bool{true}, reflect.ValueOf(1), fmt.Errorf("e"),
		// typed maps holding ZERO values / typed nils (a member that is present with the zero value is a value, a typed nil is not the nil interface)
		map[string]int32{"a": 0, "r": 0, "d": 0, "n": 0, "v": 0, "i": 0, "dz": 0, "l": 0}, map[string]bool{"b": false, "db": false, "k": false},
		map[string]string{"s": "", "z": "", "ds": "", "b": "", "x1": "", "y1": ""}, map[string]float64{"d": 0, "dd": 0, "x": 0, "f": 0},
		map[string]map[string]int32{"dm": nil, "w": nil, "m": {"a": 0}}, map[string][]string{"tags": nil, "arr": nil}, map[string]*int32{"n": nil, "a": nil},
		map[string][]interface{}{"kids": nil, "da": nil}, map[string]map[string]interface{}{"next": nil, "dr": nil, "de": nil}}
	return l[r.Intn(len(l))]
}

// a node behind 2..6 pointer levels, or held in an `any` variable that is pointed to (val() looks through exactly one pointer)
func ptrChain(r *hx.Rand, node interface{}) interface{} {
	if node == nil || r.Chance(30) {
		e := new(interface{})
		*e = node
		if r.Chance(40) {
			return &e // **any
		}
		return e // *any
	}
	x := ptrTo(node)
	for k := 1 + r.Intn(5); k > 0; k-- {
		x = ptrTo(x)
	}
	return x
}

// one hostile value suited (most of the time) to the node it replaces; returns the value and its []byte twin
func anyHostile(r *hx.Rand, node interface{}) (interface{}, interface{}) {
	same := func(x interface{}) (interface{}, interface{}) { return x, x }
	if r.Chance(12) {
		return same(ptrChain(r, node))
	}
	switch n := node.(type) {
	case float64:
		switch r.Intn(8) {
		case 0, 1:
			return same(hostileInts(r))
		case 2, 3:
			return same(hostileFloats(r))
		case 4:
			// the same number in another guise
			if n == math.Trunc(n) && math.Abs(n) < 1e15 {
				g := []interface{}{int64(n), strconv.FormatInt(int64(n), 10), ptrTo(int64(n)), json.Number(strconv.FormatInt(int64(n), 10)), []byte(strconv.FormatInt(int64(n), 10)), ptrTo(n), n + 0.5}
				return same(g[r.Intn(len(g))])
			}
			return same(float32(n))
		case 5:
			return same(hostileStrings(r))
		}
	case string:
		switch r.Intn(6) {
		case 0:
			return same(hostileStrings(r))
		case 1:
			return []byte(n), []byte(n)
		case 2:
			return json.RawMessage(n), []byte(n)
		case 3:
			return same(ptrTo(n))
		case 4:
			return same(anyStr(n))
		}
	case bool:
		if r.Chance(50) {
			g := []interface{}{"true", "false", "1", "0", "t", "F", ptrTo(n), []byte("TRUE"), 1, 0.0}
			return same(g[r.Intn(len(g))])
		}
	case map[string]interface{}:
		switch r.Intn(6) {
		case 0:
			return same(ptrTo(n))
		case 1:
			m := map[anyKey]interface{}{}
			for k, v := range n {
				m[anyKey(k)] = v
			}
			return same(m)
		case 2:
			m := map[interface{}]interface{}{}
			for k, v := range n {
				m[k] = v
			}
			return same(m)
		}
	case []interface{}:
		switch r.Intn(6) {
		case 0:
			return same(ptrTo(n))
		case 1:
			var a [2]interface{}
			copy(a[:], n)
			return same(a)
		}
	}
	switch r.Intn(5) {
	case 0:
		return same(hostileInts(r))
	case 1:
		return same(hostileFloats(r))
	case 2:
		return same(hostileStrings(r))
	case 3:
		return hostileBytes(r)
	}
	return same(hostileOther(r))
}

// graft hostile values into a copy of the tree: every node is replaced with probability p (at least one replacement is forced by
// the caller retrying); returns the mutated tree, its twin and the number of replacements
func graft(r *hx.Rand, x interface{}, p int, n *int) (interface{}, interface{}) {
	if r.Chance(p) {
		*n++
		return anyHostile(r, x)
	}
	switch y := x.(type) {
	case map[string]interface{}:
		a, b := map[string]interface{}{}, map[string]interface{}{}
		keys := make([]string, 0, len(y))
		for k := range y {
			keys = append(keys, k)
		}
		sort.Strings(keys)
		for _, k := range keys {
			a[k], b[k] = graft(r, y[k], p, n)
		}
		return a, b
	case []interface{}:
		a, b := make([]interface{}, len(y)), make([]interface{}, len(y))
		for i := range y {
			a[i], b[i] = graft(r, y[i], p, n)
		}
		return a, b
	}
	return x, x
}

// the same numbers in another guise: every integral float64 of the tree (as encoding/json produces them) may become an int64, an
// int of the narrowest width, a pointer to it, its decimal text as a string / json.Number / []byte / json.RawMessage: the reader
// must decode the same value
func guise(r *hx.Rand, x interface{}, n *int) interface{} {
	switch y := x.(type) {
	case float64:
		if y == math.Trunc(y) && math.Abs(y) < 1e15 && !(y == 0 && math.Signbit(y)) && r.Chance(60) {
			*n++
			z := int64(y)
			txt := strconv.FormatInt(z, 10)
			g := []interface{}{z, int(z), ptrTo(z), txt, "+" + txt, json.Number(txt), []byte(txt), json.RawMessage(txt), anyStr(txt), ptrTo(y), ptrTo(txt)}
			if z >= 0 {
				g = g[:len(g)-1]
			} else {
				g[4] = txt
			}
			if z >= -128 && z <= 127 {
				g = append(g, int8(z), anyInt(z))
			}
			if z >= math.MinInt32 && z <= math.MaxInt32 {
				g = append(g, int32(z))
			}
			return g[r.Intn(len(g))]
		}
	case bool:
		if r.Chance(40) {
			*n++
			return []interface{}{strconv.FormatBool(y), ptrTo(y), []byte(strconv.FormatBool(y))}[r.Intn(3)]
		}
	case map[string]interface{}:
		if len(y) == 0 && r.Chance(50) {
			// an empty map in another guise: the nil map (present and empty, not absent)
			*n++
			return map[string]interface{}(nil)
		}
		a := map[string]interface{}{}
		keys := make([]string, 0, len(y))
		for k := range y {
			keys = append(keys, k)
		}
		sort.Strings(keys)
		for _, k := range keys {
			a[k] = guise(r, y[k], n)
		}
		if r.Chance(10) {
			return ptrTo(a)
		}
		return a
	case []interface{}:
		if len(y) == 0 && r.Chance(50) {
			// an empty array in another guise: the nil slice, which is what ror2Reader.ReadInterface returns for List()
			*n++
			return []interface{}(nil)
		}
		a := make([]interface{}, len(y))
		for i := range y {
			a[i] = guise(r, y[i], n)
		}
		return a
	}
	return x
}

// cyclic values: only pointer / interface links (a finite tree walk never ends on them: never handed to toGval / descAny)
type cyclic struct {
	name string
	mk   func() interface{}
}

var cyclics = []cyclic{
	{"var p any; p = &p", func() interface{} { var p interface{}; p = &p; return p }},
	{"type loop *loop; var l loop; l = &l", func() interface{} { var l anyLoop; l = &l; return l }},
	{"var a, b any; a = &b; b = &a", func() interface{} { var a, b interface{}; a = &b; b = &a; return a }},
	{"var p any; p = &p; q := &p; &q", func() interface{} { var p interface{}; p = &p; q := &p; return &q }},
	{"type loop *loop; var l loop; l = &l; any(&l)", func() interface{} { var l anyLoop; l = &l; return &l }},
}

// a copy of the tree with the value mk() in place of every node chosen with probability p (the paths are recorded)
func graftValue(r *hx.Rand, x interface{}, p int, mk func() interface{}, path string, at *[]string) interface{} {
	if path != "" && r.Chance(p) {
		*at = append(*at, path)
		return mk()
	}
	switch y := x.(type) {
	case map[string]interface{}:
		a := map[string]interface{}{}
		keys := make([]string, 0, len(y))
		for k := range y {
			keys = append(keys, k)
		}
		sort.Strings(keys)
		for _, k := range keys {
			a[k] = graftValue(r, y[k], p, mk, path+"."+strconv.Quote(k), at)
		}
		return a
	case []interface{}:
		a := make([]interface{}, len(y))
		for i := range y {
			a[i] = graftValue(r, y[i], p, mk, fmt.Sprintf("%s[%d]", path, i), at)
		}
		return a
	}
	return x
}

// decodeAnyValue under a watchdog: hung = no result within the limit (the goroutine is left behind)
func decodeAnyDeadline(tname string, x interface{}, limit time.Duration) (oc outcome, v *Val, hung bool) {
	type result struct {
		oc outcome
		v  *Val
	}
	ch := make(chan result, 1)
	go func() {
		oc, v := decodeAnyValue(tname, x)
		ch <- result{oc, v}
	}()
	// three rounds: a read that has finished is always preferred to an expired timer (a stalled process must not look like a hang)
	for round := 0; round < 3; round++ {
		select {
		case res := <-ch:
			return res.oc, res.v, false
		case <-time.After(limit / 3):
		}
		select {
		case res := <-ch:
			return res.oc, res.v, false
		default:
		}
	}
	return outcome{Class: "hang"}, nil, true
}

// ---- (f) self-containing maps / slices: built and read in a child process (VERIF_MODE=canyprobe, VERIF_PROBE=<index>)
type selfCase struct {
	name    string
	tname   string
	control bool // acyclic: must decode, and exactly as the tree copy
	mk      func() (x interface{}, tree interface{})
}

var selfCases = []selfCase{
	{`m := map[string]any{"v": 1}; m["next"] = m`, "Rec", false, func() (interface{}, interface{}) {
		m := map[string]interface{}{"v": 1}
		m["next"] = m
		return m, nil
	}},
	{`m := map[string]any{"v": 1}; m["next"] = map[string]any{"v": 2, "next": m}`, "Rec", false, func() (interface{}, interface{}) {
		m := map[string]interface{}{"v": 1}
		m["next"] = map[string]interface{}{"v": 2, "next": m}
		return m, nil
	}},
	{`m := map[string]any{"v": 1}; m["kids"] = []any{m}`, "Rec", false, func() (interface{}, interface{}) {
		m := map[string]interface{}{"v": 1}
		m["kids"] = []interface{}{m}
		return m, nil
	}},
	{`m := map[string]any{"v": 1}; m["kids"] = []any{map[string]any{"v": 2}, map[string]any{"v": 3, "kids": []any{m}}}`, "Rec", false, func() (interface{}, interface{}) {
		m := map[string]interface{}{"v": 1}
		m["kids"] = []interface{}{map[string]interface{}{"v": 2}, map[string]interface{}{"v": 3, "kids": []interface{}{m}}}
		return m, nil
	}},
	{`m := map[string]any{"v": 1}; m["next"] = &m`, "Rec", false, func() (interface{}, interface{}) {
		m := map[string]interface{}{"v": 1}
		m["next"] = &m
		return m, nil
	}},
	{`s := []any{nil}; m := map[string]any{"v": 1, "kids": s}; s[0] = m`, "Rec", false, func() (interface{}, interface{}) {
		s := []interface{}{nil}
		m := map[string]interface{}{"v": 1, "kids": s}
		s[0] = m
		return m, nil
	}},
	{`m := map[string]map[string]any{}; m["next"] = map[string]any{"v": 2, "next": m}  (typed outer map)`, "Rec", false, func() (interface{}, interface{}) {
		m := map[string]map[string]interface{}{}
		m["next"] = map[string]interface{}{"v": 2, "next": m}
		return m, nil
	}},
	{`m := map[string]any{"v": 1}; m["next"] = m; map[string]any{"rec": m, "e": "RED"}`, "Big", false, func() (interface{}, interface{}) {
		m := map[string]interface{}{"v": 1}
		m["next"] = m
		return map[string]interface{}{"rec": m, "e": "RED"}, nil
	}},
	{`s := []any{nil}; s[0] = s; map[string]any{"aa": s}`, "DEmp", false, func() (interface{}, interface{}) {
		s := []interface{}{nil}
		s[0] = s
		return map[string]interface{}{"aa": s}, nil
	}},
	{`s := []any{nil}; s[0] = s; map[string]any{"kids": s, "v": 1}`, "Rec", false, func() (interface{}, interface{}) {
		s := []interface{}{nil}
		s[0] = s
		return map[string]interface{}{"kids": s, "v": 1}, nil
	}},
	// controls: shared, not cyclic
	{`in := map[string]any{"v": 3}; map[string]any{"v": 1, "next": in, "kids": []any{in, in, map[string]any{"v": 4, "next": in}}}  (one sub-value shared four times)`, "Rec", true, func() (interface{}, interface{}) {
		in := map[string]interface{}{"v": 3}
		cp := func() interface{} { return map[string]interface{}{"v": 3} }
		return map[string]interface{}{"v": 1, "next": in, "kids": []interface{}{in, in, map[string]interface{}{"v": 4, "next": in}}},
			map[string]interface{}{"v": 1, "next": cp(), "kids": []interface{}{cp(), cp(), map[string]interface{}{"v": 4, "next": cp()}}}
	}},
	{`b := []any{{"v": 5}, {"v": 6}, {"v": 7}}; map[string]any{"v": 1, "kids": b, "next": map[string]any{"v": 2, "kids": b[:2], "next": map[string]any{"v": 3, "kids": b[:3]}}}  (prefix slices / the same slice again, not nested in itself)`, "Rec", true, func() (interface{}, interface{}) {
		mk := func() []interface{} {
			return []interface{}{map[string]interface{}{"v": 5}, map[string]interface{}{"v": 6}, map[string]interface{}{"v": 7}}
		}
		b := mk()
		return map[string]interface{}{"v": 1, "kids": b, "next": map[string]interface{}{"v": 2, "kids": b[:2], "next": map[string]interface{}{"v": 3, "kids": b[:3]}}},
			map[string]interface{}{"v": 1, "kids": mk(), "next": map[string]interface{}{"v": 2, "kids": mk()[:2], "next": map[string]interface{}{"v": 3, "kids": mk()}}}
	}},
	{`in := []any{"a", "b"}; map[string]any{"arr": in, "m": map[string]any{}, "marr": map[string]any{}, "am": []any{}, "ab": in}  (one slice at two fields)`, "Coll", true, func() (interface{}, interface{}) {
		in := []interface{}{"a", "b"}
		return map[string]interface{}{"arr": in, "m": map[string]interface{}{}, "marr": map[string]interface{}{}, "am": []interface{}{}, "ab": in},
			map[string]interface{}{"arr": []interface{}{"a", "b"}, "m": map[string]interface{}{}, "marr": map[string]interface{}{}, "am": []interface{}{}, "ab": []interface{}{"a", "b"}}
	}},
}

type probeResult struct {
	Outcome      outcome `json:"outcome"`
	ControlEqual bool    `json:"control_equal"`
	TreeOutcome  outcome `json:"tree_outcome"`
}

// the child: VERIF_PROBE = index into selfCases
func runCAnyProbe() {
	debug.SetMaxStack(48 << 20) // an unbounded recursion ends in seconds, not after a gigabyte of stack
	k, err := strconv.Atoi(os.Getenv("VERIF_PROBE"))
	if err != nil || k < 0 || k >= len(selfCases) {
		fmt.Fprintln(os.Stderr, "bad VERIF_PROBE")
		os.Exit(2)
	}
	c := selfCases[k]
	x, tree := c.mk()
	var res probeResult
	var got *Val
	res.Outcome, got = decodeAnyValue(c.tname, x)
	if c.control {
		var want *Val
		res.TreeOutcome, want = decodeAnyValue(c.tname, tree)
		res.ControlEqual = res.Outcome.Class == res.TreeOutcome.Class && valKey(got) == valKey(want)
	}
	b, _ := json.Marshal(res)
	fmt.Println(string(b))
}

// the parent: run selfCases[k] in a child process of this executable
func probeChild(k int, limit time.Duration) (res probeResult, status string, tail string) {
	exe, err := os.Executable()
	if err != nil {
		return res, "cannot-start", err.Error()
	}
	ctx, cancel := context.WithTimeout(context.Background(), limit)
	defer cancel()
	cmd := exec.CommandContext(ctx, exe)
	cmd.Env = append(os.Environ(), "VERIF_MODE=canyprobe", fmt.Sprintf("VERIF_PROBE=%d", k))
	var stderr strings.Builder
	cmd.Stderr = &stderr
	out, err := cmd.Output()
	tail = stderr.String()
	if i := strings.Index(tail, "\n\n"); i > 0 {
		tail = tail[:i] // the first paragraph of a fatal error ("runtime: goroutine stack exceeds ...", "fatal error: stack overflow")
	}
	if len(tail) > 400 {
		tail = tail[:400]
	}
	switch {
	case ctx.Err() != nil:
		return res, "timeout", tail
	case err != nil:
		if strings.Contains(stderr.String(), "stack overflow") || strings.Contains(stderr.String(), "stack exceeds") {
			return res, "stack-overflow", tail
		}
		return res, "crash", tail
	}
	if json.Unmarshal(out, &res) != nil {
		return res, "crash", "unreadable child output: " + string(out)
	}
	return res, "ok", ""
}

// NewInterfaceReader(x) + the generated UnmarshalRestLi of tname
func decodeAnyValue(tname string, x interface{}) (oc outcome, v *Val) {
	var err error
	var p interface{}
	ptr := reflect.New(registry[tname])
	func() {
		defer func() { p = recover() }()
		err = ptr.Interface().(restlicodec.Unmarshaler).UnmarshalRestLi(restlicodec.NewInterfaceReader(x))
	}()
	oc = classify(err, p)
	if oc.Class == "ok" || oc.Class == "missing" {
		v = schema.fromGo(ref(tname), ptr.Elem())
	}
	return oc, v
}

func anyHeader() string {
	return "From Coq Require Import List ZArith NArith. Import ListNotations.\nFrom Coq.Strings Require Import Byte.\n" +
		"From GR Require Import Base.Bytes Base.Res Codec.Schema Codec.AnyReader Gen.FamEnv Corr.AnyCorr.\n"
}

func coqAnyObs(oc outcome, v *Val) string {
	if oc.Class == "ok" && v != nil {
		return "(AOk " + v.Coq() + ")"
	}
	if oc.Class == "missing" && v != nil {
		return "(AMissing " + hx.CoqBytesList(oc.Fields) + " " + v.Coq() + ")"
	}
	return "(AFail " + coqClass(oc.Class) + ")"
}

func dedup(l []string) []string {
	seen := map[string]bool{}
	var out []string
	for _, s := range l {
		if !seen[s] {
			seen[s] = true
			out = append(out, s)
		}
	}
	return out
}

// does the document hold an integer beyond 2^53 (encoding/json's float64 cannot carry it) ?
func (d *Doc) bigInt() bool {
	if d == nil {
		return false
	}
	if d.Kind == "int" && (d.Z > 1<<53 || d.Z < -(1<<53)) {
		return true
	}
	for _, x := range d.Items {
		if x.bigInt() {
			return true
		}
	}
	return false
}

type anyDesc struct {
	Mode     string   `json:"mode"`
	Type     string   `json:"type"`
	Source   string   `json:"source"`
	Document string   `json:"document,omitempty"`
	Value    string   `json:"value"`
	Note     string   `json:"note,omitempty"`
	Outcome  outcome  `json:"outcome"`
	Decoded  *Val     `json:"decoded,omitempty"`
}

func runCAny(cfg *hx.Config) {
	rep := hx.NewReport("the untyped reader (NewInterfaceReader) under the generated unmarshalers of every top type of the family: (a) the C06 mutation stream " +
		"(random subsets of fields deleted at every depth, fields nulled, keys permuted, unknown primitive/object/array fields injected) rendered as JSON and unmarshalled " +
		"by encoding/json into `any`: exact missing set, agreement with the JSON reader on the same text, outcome/value/missing fields compared with the model decA; " +
		"(b) hostile native Go values grafted at random nodes of such trees or standing alone (nil, typed nil pointers, pointers to values / to pointers / to interfaces, " +
		"ints, uints and floats of every width incl. extremes, NaN, fractional and out-of-range floats where ints are expected, numeric / boolean / non-UTF-8 strings, " +
		"json.Number, []byte and named byte-slice types, channels, funcs, structs, arrays, complex, typed slices and maps, maps with non-string keys): never a panic, " +
		"named byte slices behave as []byte, everything compared with decA. non-trivial = a required field is missing or a hostile value was grafted; distinct by (type, value)")
	shd := hx.NewShards(cfg.Out, anyHeader(), "AnyCorr", 30)
	r := hx.NewRand(cfg.Seed)
	nJSON, nHostile, nTyped, nCyclic := 25, 70, 30, 2
	if cfg.Thorough() {
		nJSON, nHostile, nTyped, nCyclic = 400, 1200, 500, 20
	}
	hangs := 0
	kinds := map[string]int{}
	site := "v2/restlicodec/any_reader.go"

	emit := func(tname string, x interface{}, oc outcome, got *Val, d anyDesc) {
		ctx := &gvalCtx{kinds: kinds}
		g := ctx.toGval(x)
		// a few conversions of the hardware beyond those of the value
		for i := 0; i < 2; i++ {
			ctx.convInt(int64(r.U64()) >> uint(r.Intn(64)))
			ctx.convFloat(math.Float64frombits(r.U64()))
		}
		texts := dedup(append(append([]string{}, baseTexts...), ctx.texts...))
		term := "{| a_ty := " + schema.coqTy(ref(tname)) + ";\n a_val := " + g + ";\n a_parse := " + coqParseTable(texts) +
			";\n a_conv := [" + strings.Join(ctx.conv, "; ") + "];\n a_obs := " + coqAnyObs(oc, got) + " |}"
		d.Mode, d.Type, d.Outcome, d.Decoded = "cany", tname, oc, got.fixJSON()
		shd.Add(term, d)
	}

	for _, tname := range anyTops {
		t := ref(tname)
		isRecord := schema.Types[tname].Kind == "record"
		nJ, nH, nT := nJSON, nHostile, nTyped
		if tname == "Wide" {
			nJ = nJSON / 2
		}
		// ---- (a) JSON-derived
		for i := 0; i < nJ; i++ {
			v := schema.gen(r, t, genOpts{utf8: true, depth: 1 + r.Intn(3)})
			base := schema.refEncode(t, v)
			d := base
			note := ""
			if isRecord || r.Chance(50) {
				d, note = mutateDoc(schema, t, base, r, true)
			}
			if !d.jsonOK() {
				continue
			}
			text := d.render(0, r, r.Chance(30))
			var x interface{}
			if err := json.Unmarshal([]byte(text), &x); err != nil {
				continue
			}
			oc, got := decodeAnyValue(tname, x)
			rep.Evaluations++
			rep.Count("source=json")
			rep.Count("outcome=" + oc.Class)
			var want []string
			schema.missingSpec(t, d, "", &want)
			rep.Count(fmt.Sprintf("missing=%d", minInt(len(want), 4)))
			rep.Distinct(tname+text, len(want) > 0)
			cd := map[string]interface{}{"type": tname, "reader": "any", "document": text, "mutations": note, "expected_missing": want, "outcome": oc}
			topNull := d.Kind == "null"
			switch {
			case oc.Class == "panic":
				rep.Fail("any:panic", "the untyped reader panicked on a value produced by encoding/json", site, cd, oc.Text)
			case topNull:
				// a null document: InvalidTypeError for the untyped reader (reader-kind difference, see Props/C06_any.v)
			case isRecord && len(want) == 0 && oc.Class != "ok":
				rep.Fail("any:missing:spurious-"+oc.Class, "no required field is missing but the untyped reader fails", site, cd, oc.Text)
			case isRecord && len(want) > 0 && oc.Class != "missing":
				rep.Fail("any:missing:not-reported", "required fields are missing but the untyped reader returns no missing-required-fields error", site, cd, oc.Text)
			case isRecord && len(want) > 0 && strings.Join(oc.Fields, "|") != strings.Join(want, "|"):
				rep.Fail("any:missing:wrong-set", "the set of missing fields reported by the untyped reader differs from the absent required fields", site, cd, oc.Fields)
			}
			// readers_agree at the implementation level: same outcome, fields and value as the JSON reader
			if !d.bigInt() && !topNull && oc.Class != "panic" {
				ocj, gotj := decodeVal(tname, 0, text, nil, 0)
				rep.Count("compared-with-json-reader")
				if ocj.Class != oc.Class || strings.Join(ocj.Fields, "|") != strings.Join(oc.Fields, "|") ||
					((oc.Class == "ok" || oc.Class == "missing") && valKey(got) != valKey(gotj)) {
					cd["json_reader_outcome"] = ocj
					cd["json_reader_value"] = gotj.fixJSON()
					cd["any_reader_value"] = got.fixJSON()
					rep.Fail("any:differs-from-json-reader", "the untyped reader and the JSON reader disagree on the same document", site, cd, nil)
				}
			}
			if len(want) > 0 && i < 2 {
				rep.Sample(cd)
			}
			emit(tname, x, oc, got, anyDesc{Source: "json", Document: text, Value: descAny(x), Note: note})
		}
		// ---- (b) hostile native values
		if tname == "DIn" || tname == "DEmp" || tname == "Wide" {
			nH, nT = nHostile/4, nTyped/2 // (the model is about three times slower on the 70-field record)
		}
		for i := 0; i < nH; i++ {
			var x, twin, orig interface{}
			note := ""
			if i%10 == 9 {
				x, twin = anyHostile(r, nil)
				note = "standalone"
			} else if i%10 >= 7 {
				v := schema.gen(r, t, genOpts{utf8: true, depth: 1 + r.Intn(2)})
				d := schema.refEncode(t, v)
				if !d.jsonOK() || d.bigInt() {
					continue
				}
				if err := json.Unmarshal([]byte(d.render(0, r, false)), &orig); err != nil {
					continue
				}
				n := 0
				x = guise(r, orig, &n)
				twin = x
				note = fmt.Sprintf("%d numbers / booleans in another guise", n)
			} else {
				v := schema.gen(r, t, genOpts{utf8: true, depth: 1 + r.Intn(2)})
				d := schema.refEncode(t, v)
				if r.Chance(30) {
					d, _ = mutateDoc(schema, t, d, r, true)
				}
				if !d.jsonOK() {
					continue
				}
				var y interface{}
				if err := json.Unmarshal([]byte(d.render(0, r, false)), &y); err != nil {
					continue
				}
				n := 0
				for k := 0; k < 8 && n == 0; k++ {
					x, twin = graft(r, y, 8+4*k, &n)
				}
				note = fmt.Sprintf("%d grafted", n)
			}
			oc, got := decodeAnyValue(tname, x)
			rep.Evaluations++
			rep.Count("source=hostile")
			rep.Count("outcome=" + oc.Class)
			desc := descAny(x)
			rep.Distinct(tname+desc, true)
			cd := map[string]interface{}{"type": tname, "reader": "any", "value": desc, "note": note, "outcome": oc}
			if oc.Class == "panic" {
				rep.Fail("any:panic", "the untyped reader panicked on a Go value", site, cd, oc.Text)
			}
			// a number / boolean in another guise decodes to the same value
			if orig != nil && oc.Class != "panic" {
				oco, goto_ := decodeAnyValue(tname, orig)
				rep.Count("compared-with-plain-guise")
				if oco.Class != oc.Class || strings.Join(oco.Fields, "|") != strings.Join(oc.Fields, "|") ||
					((oc.Class == "ok" || oc.Class == "missing") && valKey(got) != valKey(goto_)) {
					cd["plain_value"] = descAny(orig)
					cd["plain_outcome"] = oco
					rep.Fail("any:guise-differs", "an integer / boolean given as an int of another width, a pointer, its text (string, json.Number, []byte) is not decoded as the plain value is", site, cd, nil)
				}
			}
			// named byte slices behave as []byte
			oct, gott := decodeAnyValue(tname, twin)
			if oct.Class == "panic" {
				cd["twin"] = descAny(twin)
				rep.Fail("any:panic", "the untyped reader panicked on a Go value", site, cd, oct.Text)
			} else if oc.Class != "panic" && (oct.Class != oc.Class || strings.Join(oct.Fields, "|") != strings.Join(oc.Fields, "|") ||
				((oc.Class == "ok" || oc.Class == "missing") && valKey(got) != valKey(gott))) {
				cd["twin"] = descAny(twin)
				cd["twin_outcome"] = oct
				rep.Fail("any:named-bytes-differ", "a named byte-slice type is not read as the []byte with the same content", site, cd, nil)
			}
			if i < 2 {
				rep.Sample(cd)
			}
			emit(tname, x, oc, got, anyDesc{Source: "hostile", Value: desc, Note: note})
		}
			// ---- (c) maps / slices of concrete element type
		for i := 0; i < nT; i++ {
			v := schema.gen(r, t, genOpts{utf8: true, depth: 1 + r.Intn(3)})
			schema.zeroSome(r, v, 30)
			note := ""
			if isRecord && r.Chance(65) {
				kind := []string{"num", "num", "bool", "str", "str", "obj", "arr"}[r.Intn(7)]
				v = schema.projectVal(tname, v, kind)
				note = "members of JSON kind " + kind + " only; "
			}
			d := schema.refEncode(t, v)
			if r.Chance(30) {
				var mn string
				d, mn = mutateDoc(schema, t, d, r, false)
				note += mn
			}
			if !d.jsonOK() || d.bigInt() {
				continue
			}
			text := d.render(0, r, false)
			var y interface{}
			if err := json.Unmarshal([]byte(text), &y); err != nil {
				continue
			}
			nconv := 0
			x := typify(r, y, 75, &nconv)
			if nconv == 0 {
				continue
			}
			oc, got := decodeAnyValue(tname, x)
			ocu, gotu := decodeAnyValue(tname, y)
			rep.Evaluations++
			rep.Count("source=typed-containers")
			rep.Count("outcome=" + oc.Class)
			desc := descAny(x)
			var want []string
			schema.missingSpec(t, d, "", &want)
			rep.Distinct(tname+desc, true)
			cd := map[string]interface{}{"type": tname, "reader": "any", "value": desc, "document": text, "note": note + fmt.Sprintf("; %d maps / slices given a concrete element type", nconv),
				"expected_missing": want, "outcome": oc}
			switch {
			case oc.Class == "panic":
				rep.Fail("any:panic", "the untyped reader panicked on a Go value", site, cd, oc.Text)
			case isRecord && len(want) == 0 && oc.Class != "ok":
				rep.Fail("any:missing:spurious-"+oc.Class, "no required field is missing but the untyped reader fails", site, cd, oc.Text)
			case isRecord && len(want) > 0 && oc.Class != "missing":
				rep.Fail("any:missing:not-reported", "required fields are missing but the untyped reader returns no missing-required-fields error", site, cd, oc.Text)
			case isRecord && len(want) > 0 && strings.Join(oc.Fields, "|") != strings.Join(want, "|"):
				rep.Fail("any:missing:wrong-set", "the set of missing fields reported by the untyped reader differs from the absent required fields", site, cd, oc.Fields)
			}
			if oc.Class != "panic" && (ocu.Class != oc.Class || strings.Join(ocu.Fields, "|") != strings.Join(oc.Fields, "|") ||
				((oc.Class == "ok" || oc.Class == "missing") && valKey(got) != valKey(gotu))) {
				cd["untyped_value"] = descAny(y)
				cd["untyped_outcome"] = ocu
				cd["typed_decoded"] = got.fixJSON()
				cd["untyped_decoded"] = gotu.fixJSON()
				rep.Fail("any:typed-container-differs", "a map / slice with a concrete element type is not decoded as the map[string]any / []any with the same members (a member holding the zero value is present)", site, cd, nil)
			}
			if i < 2 {
				rep.Sample(cd)
			}
			emit(tname, x, oc, got, anyDesc{Source: "typed", Document: text, Value: desc, Note: note})
		}
		// ---- (d) a deep pointer chain, (e) cyclic values: oracle only, every read under a deadline
		deadline := 3 * time.Second
		watch := func(x interface{}, desc, note string) {
			if hangs >= 2 {
				return // every hung read keeps spinning in its goroutine: two failing inputs are enough
			}
			oc, _, hung := decodeAnyDeadline(tname, x, deadline)
			rep.Evaluations++
			rep.Count("source=cyclic-or-deep")
			rep.Count("outcome=" + oc.Class)
			rep.Distinct(tname+desc+note, true)
			cd := map[string]interface{}{"type": tname, "reader": "any", "value": desc, "note": note, "outcome": oc}
			switch {
			case hung:
				hangs++
				rep.Fail("any:hang", "the untyped reader did not return within the deadline on a Go value (it must return an error or a value)", site, cd, fmt.Sprint("no result after ", deadline))
			case oc.Class == "panic":
				rep.Fail("any:panic", "the untyped reader panicked on a Go value", site, cd, oc.Text)
			}
		}
		{
			var deep interface{} = int32(5)
			for k := 0; k < 64; k++ {
				deep = ptrTo(deep)
			}
			watch(deep, "a chain of 64 pointers to int32(5)", "standalone")
			watch(map[string]interface{}{"a": deep, "v": deep, "r": deep, "i": deep, "n": deep, "f00": deep, "int": deep, "long": deep}, "map[string]any{a, v, r, i, n, f00, int, long: a chain of 64 pointers to int32(5)}", "as members")
		}
		for _, c := range cyclics {
			watch(c.mk(), c.name, "standalone")
			for i := 0; i < nCyclic; i++ {
				v := schema.gen(r, t, genOpts{utf8: true, depth: 1 + r.Intn(2)})
				d := schema.refEncode(t, v)
				if !d.jsonOK() {
					continue
				}
				var y interface{}
				if err := json.Unmarshal([]byte(d.render(0, r, false)), &y); err != nil {
					continue
				}
				var at []string
				var x interface{}
				for k := 0; k < 8 && len(at) == 0; k++ {
					at = nil
					x = graftValue(r, y, 10+6*k, c.mk, "", &at)
				}
				watch(x, descAny(y)+" with `"+c.name+"` in place of the nodes at "+strings.Join(at, ", "), "grafted")
			}
		}
	}
	// ---- (f) self-containing maps / slices, each in a child process
	for k, c := range selfCases {
		res, status, tail := probeChild(k, 30*time.Second)
		rep.Evaluations++
		rep.Count("source=self-containing(child process)")
		rep.Count("child=" + status)
		rep.Distinct("self"+c.name, true)
		cd := map[string]interface{}{"type": c.tname, "reader": "any", "value": c.name, "child_process": status, "outcome": res.Outcome, "stderr": tail}
		switch {
		case status == "stack-overflow":
			rep.Fail("any:stack-overflow", "the untyped reader recurses without bound into a map / slice that contains itself: the goroutine stack overflows, which is fatal to the process (recover() cannot catch it)", site+":ReadMap/ReadArray", cd, tail)
		case status == "timeout":
			rep.Fail("any:hang", "the untyped reader did not return within the deadline on a Go value (it must return an error or a value)", site, cd, tail)
		case status != "ok":
			rep.Fail("any:crash", "reading a Go value with the untyped reader killed the process", site, cd, tail)
		case res.Outcome.Class == "panic":
			rep.Fail("any:panic", "the untyped reader panicked on a Go value", site, cd, res.Outcome.Text)
		case c.control && !(res.Outcome.Class == "ok" && res.ControlEqual):
			cd["tree_outcome"] = res.TreeOutcome
			rep.Fail("any:shared-subvalue-differs", "a value in which a sub-value is shared (not cyclic) is not decoded as its tree copy", site, cd, res.Outcome.Text)
		case !c.control && res.Outcome.Class == "ok":
			rep.Fail("any:self-containing-accepted", "a value that contains itself was decoded without an error", site, cd, nil)
		}
		if k < 2 {
			rep.Sample(cd)
		}
	}
	for k, n := range kinds {
		rep.CountN("gval:"+k, n)
	}
	shd.Close()
	rep.Shards = shd.Files
	rep.Write(cfg.Out)
}
