package main

// C10: Equals / ComputeHash contract of the generated types and of the library key types.
// For every type a pool is built around a seeded base value: separately built copy, JSON round-tripped copy, copies whose maps are
// built in another insertion order, and every single-position mutation (field / element / entry / member / optional presence,
// +0 vs -0, NaN, nil vs empty, unset vs zero-valued optional).  Observables (through reflection on the REAL generated code):
// Equals on all pairs, ComputeHash (as uint32) of every value, fnv1a.Hash.Equals.  The Coq model (Hash/Fnv.v, Hash/Equals.v)
// must produce the same Equals matrix and the same hashes; the property's own predicate is evaluated on the implementation.

import (
	"encoding/json"
	"fmt"
	"math"
	"os"
	"reflect"
	"sort"
	"strconv"
	"strings"

	"github.com/PapaCharlie/go-restli/v2/fnv1a"
	"github.com/PapaCharlie/go-restli/v2/restli/equals"
	"verifgen/hx"
)

// ---- the schema as Equals/ComputeHash see it (Coq: Hash.Fnv.hty / henv)
var c10EnvIndex map[string]int

func c10PatchSchema() {
	// a complex key is the record the generator builds for it: includes = [Key], fields = [optional params]
	for _, name := range schema.Order {
		n := schema.Types[name]
		if n.Kind == "complexKey" {
			n.Kind = "record"
			n.Includes = []string{n.Key}
			n.Fields = []Field{{Name: "params", Type: ref(n.Params), IsOptional: true}}
		}
	}
	c10EnvIndex = map[string]int{}
	for _, name := range schema.Order {
		k := schema.Types[name].Kind
		if k == "record" || k == "standaloneUnion" {
			c10EnvIndex[name] = len(c10EnvIndex)
		}
	}
}

func c10Ty(t RType) string {
	switch {
	case t.Primitive != "":
		return "(HPrim " + primCoq[t.Primitive] + ")"
	case t.Array != nil:
		return "(HArray " + c10Ty(*t.Array) + ")"
	case t.Map != nil:
		return "(HMap " + c10Ty(*t.Map) + ")"
	}
	n := schema.Types[t.Reference.Name]
	switch n.Kind {
	case "enum":
		return fmt.Sprintf("(HEnum %d)", len(n.Symbols))
	case "fixed":
		return fmt.Sprintf("(HFixed %d)", n.Size)
	case "typeref":
		return "(HTyperef " + primCoq[n.Prim] + ")"
	}
	return fmt.Sprintf("(HRef %d)", c10EnvIndex[n.Name])
}

func c10Env() string {
	var items []string
	for _, name := range schema.Order {
		n := schema.Types[name]
		switch n.Kind {
		case "record":
			var incs, fs []string
			for _, i := range n.Includes {
				incs = append(incs, fmt.Sprint(c10EnvIndex[i]))
			}
			for _, f := range n.Fields {
				fs = append(fs, fmt.Sprintf("{| hf_ty := %s; hf_ptr := %s |}", c10Ty(f.Type), hx.CoqBool(f.IsOptional || f.DefaultValue != nil)))
			}
			items = append(items, "HRecord ["+strings.Join(incs, ";")+"] ["+strings.Join(fs, ";")+"]")
		case "standaloneUnion":
			var ms []string
			for _, m := range n.Members {
				ms = append(ms, c10Ty(m.Type))
			}
			items = append(items, "HUnion ["+strings.Join(ms, ";")+"]")
		}
	}
	return "[" + strings.Join(items, ";\n ") + "]"
}

func c10Header(corr string) string {
	return "From Coq Require Import List ZArith NArith. Import ListNotations.\nFrom Coq.Strings Require Import Byte.\n" +
		"From GR Require Import Base.Bytes Codec.Schema Hash.Fnv Corr." + corr + ".\n" +
		"Definition fam_henv : henv :=\n " + c10Env() + ".\n" +
		"Module " + corr + "I.\n Definition case := " + corr + ".case.\n Definition mismatches := " + corr + ".mismatches fam_henv.\n" +
		" Definition model_out := " + corr + ".model_out fam_henv.\n Definition select := @" + corr + ".select " + corr + ".case.\nEnd " + corr + "I.\n"
}

// ---- deep copy / zero values
func (v *Val) c10Clone() *Val {
	if v == nil {
		return nil
	}
	c := *v
	c.Keys = append([]string(nil), v.Keys...)
	c.KeysQ = nil
	cp := func(l []*Val) []*Val {
		if l == nil {
			return nil
		}
		o := make([]*Val, len(l))
		for i, x := range l {
			o[i] = x.c10Clone()
		}
		return o
	}
	c.Incs, c.Fields, c.Items = cp(v.Incs), cp(v.Fields), cp(v.Items)
	return &c
}

func c10ZeroPrim(p string) *Val {
	switch p {
	case "int32":
		return &Val{K: "int"}
	case "int64":
		return &Val{K: "long"}
	case "float32":
		return &Val{K: "float"}
	case "float64":
		return &Val{K: "double"}
	case "bool":
		return &Val{K: "bool"}
	case "string":
		return &Val{K: "str"}
	}
	return &Val{K: "bytes"}
}

// the Go zero value of the type (what a freshly allocated optional points to)
func c10Zero(t RType) *Val {
	switch {
	case t.Primitive != "":
		return c10ZeroPrim(t.Primitive)
	case t.Array != nil:
		return &Val{K: "arr", NilColl: true}
	case t.Map != nil:
		return &Val{K: "map", NilColl: true}
	}
	n := schema.Types[t.Reference.Name]
	switch n.Kind {
	case "enum":
		return &Val{K: "enum", Z: 0}
	case "fixed":
		return &Val{K: "fixed", S: strings.Repeat("\x00", n.Size)}
	case "typeref":
		return c10ZeroPrim(n.Prim)
	case "record":
		v := &Val{K: "rec"}
		for _, inc := range n.Includes {
			v.Incs = append(v.Incs, c10Zero(ref(inc)))
		}
		for _, f := range n.Fields {
			if f.IsOptional || f.DefaultValue != nil {
				v.Fields = append(v.Fields, nil)
			} else {
				v.Fields = append(v.Fields, c10Zero(f.Type))
			}
		}
		return v
	}
	return &Val{K: "union", Fields: make([]*Val, len(n.Members))}
}

// ---- the reference notion of equality (the property's, on abstract values): position by position, floats by ==, enum
// constants valid, maps by key, nil = empty
func c10RefEq(t RType, a, b *Val) bool {
	if a == nil || b == nil {
		return a == nil && b == nil
	}
	prim := func(p string) bool {
		switch p {
		case "int32", "int64":
			return a.Z == b.Z
		case "float32":
			return math.Float32frombits(uint32(a.Bits)) == math.Float32frombits(uint32(b.Bits))
		case "float64":
			return math.Float64frombits(a.Bits) == math.Float64frombits(b.Bits)
		case "bool":
			return a.B == b.B
		}
		return a.S == b.S
	}
	switch {
	case t.Primitive != "":
		return prim(t.Primitive)
	case t.Array != nil:
		if len(a.Items) != len(b.Items) {
			return false
		}
		for i := range a.Items {
			if !c10RefEq(*t.Array, a.Items[i], b.Items[i]) {
				return false
			}
		}
		return true
	case t.Map != nil:
		if len(a.Items) != len(b.Items) {
			return false
		}
		idx := map[string]*Val{}
		for i, k := range b.Keys {
			idx[k] = b.Items[i]
		}
		for i, k := range a.Keys {
			x, ok := idx[k]
			if !ok || !c10RefEq(*t.Map, a.Items[i], x) {
				return false
			}
		}
		return true
	}
	n := schema.Types[t.Reference.Name]
	switch n.Kind {
	case "enum":
		valid := func(z int64) bool { return z >= 1 && z <= int64(len(n.Symbols)) }
		return valid(a.Z) && valid(b.Z) && a.Z == b.Z
	case "fixed":
		return a.S == b.S
	case "typeref":
		return prim(n.Prim)
	case "record":
		for i, inc := range n.Includes {
			if !c10RefEq(ref(inc), a.Incs[i], b.Incs[i]) {
				return false
			}
		}
		for i, f := range n.Fields {
			if !c10RefEq(f.Type, a.Fields[i], b.Fields[i]) {
				return false
			}
		}
		return true
	}
	for i, m := range n.Members {
		if !c10RefEq(m.Type, a.Fields[i], b.Fields[i]) {
			return false
		}
	}
	return true
}

// "valid value" of the property: every enum constant valid, no NaN
func c10Wf(t RType, v *Val) bool {
	if v == nil {
		return true
	}
	if v.hasNaN() {
		return false
	}
	switch {
	case t.Primitive != "":
		return true
	case t.Array != nil:
		for _, x := range v.Items {
			if !c10Wf(*t.Array, x) {
				return false
			}
		}
		return true
	case t.Map != nil:
		for _, x := range v.Items {
			if !c10Wf(*t.Map, x) {
				return false
			}
		}
		return true
	}
	n := schema.Types[t.Reference.Name]
	switch n.Kind {
	case "enum":
		return v.Z >= 1 && v.Z <= int64(len(n.Symbols))
	case "record":
		for i, inc := range n.Includes {
			if !c10Wf(ref(inc), v.Incs[i]) {
				return false
			}
		}
		for i, f := range n.Fields {
			if !c10Wf(f.Type, v.Fields[i]) {
				return false
			}
		}
	case "standaloneUnion":
		for i, m := range n.Members {
			if !c10Wf(m.Type, v.Fields[i]) {
				return false
			}
		}
	}
	return true
}

// ---- single-position mutations
type c10Mut struct {
	v    *Val   // the mutated value (nil = optional unset)
	kind string // what was changed
	eq   bool   // the mutation must NOT change the value's identity (Equal to the original, same hash)
}

func c10MutPrim(r *hx.Rand, p string, v *Val) []c10Mut {
	var out []c10Mut
	with := func(kind string, eq bool, f func(c *Val)) {
		c := v.c10Clone()
		f(c)
		out = append(out, c10Mut{c, kind, eq})
	}
	switch p {
	case "int32":
		with("int32", false, func(c *Val) { c.Z = int64(int32(c.Z + 1)) })
		with("int32", false, func(c *Val) { c.Z = int64(int32(^c.Z)) })
		with("int32", false, func(c *Val) { c.Z = int64(int32(c.Z ^ 0x100)) })
	case "int64":
		with("int64", false, func(c *Val) { c.Z = int64(uint64(c.Z) + 1) })
		with("int64", false, func(c *Val) { c.Z = c.Z ^ (1 << 40) })
	case "float32":
		f := math.Float32frombits(uint32(v.Bits))
		if f == 0 {
			with("signed-zero", true, func(c *Val) { c.Bits ^= 0x80000000 })
		}
		with("float32", false, func(c *Val) { c.Bits = uint64(uint32(c.Bits + 1)) })
		with("nan", false, func(c *Val) { c.Bits = uint64(math.Float32bits(float32(math.NaN()))) })
		if f != 0 {
			with("float32", false, func(c *Val) { c.Bits ^= 0x80000000 })
		}
	case "float64":
		f := math.Float64frombits(v.Bits)
		if f == 0 {
			with("signed-zero", true, func(c *Val) { c.Bits ^= 1 << 63 })
		}
		with("float64", false, func(c *Val) { c.Bits = c.Bits + 1 })
		with("nan", false, func(c *Val) { c.Bits = math.Float64bits(math.NaN()) })
		if f != 0 {
			with("float64", false, func(c *Val) { c.Bits ^= 1 << 63 })
		}
	case "bool":
		with("bool", false, func(c *Val) { c.B = !c.B })
	case "string", "bytes":
		with(p, false, func(c *Val) { c.S += "x" })
		with(p, false, func(c *Val) { c.S += "\x00" })
		if len(v.S) > 0 {
			with(p, false, func(c *Val) { c.S = c.S[:len(c.S)-1] })
			i := r.Intn(len(v.S))
			with(p, false, func(c *Val) { b := []byte(c.S); b[i] ^= 1 << uint(r.Intn(8)); c.S = string(b) })
			with(p, false, func(c *Val) { c.S = "" })
		} else if p == "bytes" {
			with("nil-vs-empty", true, func(c *Val) { c.NilColl = !c.NilColl })
		}
	}
	return out
}

func (s *Schema) c10Muts(r *hx.Rand, t RType, v *Val) []c10Mut {
	var out []c10Mut
	// replace child i (in list sel) by each mutation of it
	sub := func(sel func(c *Val) []*Val, i int, ms []c10Mut) {
		for _, m := range ms {
			c := v.c10Clone()
			sel(c)[i] = m.v
			out = append(out, c10Mut{c, m.kind, m.eq})
		}
	}
	items := func(c *Val) []*Val { return c.Items }
	fields := func(c *Val) []*Val { return c.Fields }
	incs := func(c *Val) []*Val { return c.Incs }
	gopts := genOpts{utf8: true, depth: 1}
	// optional slot i of type ft
	optional := func(i int, ft RType, what string) {
		if v.Fields[i] == nil {
			sub(fields, i, []c10Mut{{c10Zero(ft), what + "-unset-vs-zero", false}, {s.gen(r, ft, gopts), what + "-presence", false}})
		} else {
			sub(fields, i, []c10Mut{{nil, what + "-presence", false}})
			sub(fields, i, s.c10Muts(r, ft, v.Fields[i]))
		}
	}
	switch {
	case t.Primitive != "":
		return c10MutPrim(r, t.Primitive, v)
	case t.Array != nil:
		for i := range v.Items {
			sub(items, i, s.c10Muts(r, *t.Array, v.Items[i]))
		}
		if len(v.Items) > 0 {
			for _, i := range []int{0, len(v.Items) - 1} {
				c := v.c10Clone()
				c.Items = append(c.Items[:i:i], c.Items[i+1:]...)
				out = append(out, c10Mut{c, "array-element-removed", false})
			}
			if len(v.Items) >= 2 && !c10RefEq(*t.Array, v.Items[0], v.Items[1]) && c10Wf(*t.Array, v.Items[0]) && c10Wf(*t.Array, v.Items[1]) {
				c := v.c10Clone()
				c.Items[0], c.Items[1] = c.Items[1], c.Items[0]
				out = append(out, c10Mut{c, "array-elements-swapped", false})
			}
		} else {
			c := v.c10Clone()
			c.NilColl = !c.NilColl
			out = append(out, c10Mut{c, "nil-vs-empty", true})
		}
		c := v.c10Clone()
		c.Items = append(c.Items, s.gen(r, *t.Array, gopts))
		out = append(out, c10Mut{c, "array-element-added", false})
	case t.Map != nil:
		for i := range v.Items {
			sub(items, i, s.c10Muts(r, *t.Map, v.Items[i]))
			c := v.c10Clone()
			c.Items = append(c.Items[:i:i], c.Items[i+1:]...)
			c.Keys = append(c.Keys[:i:i], c.Keys[i+1:]...)
			out = append(out, c10Mut{c, "map-entry-removed", false})
			c = v.c10Clone()
			c.Keys[i] = c10FreshKey(v.Keys, v.Keys[i])
			out = append(out, c10Mut{c, "map-key-changed", false})
		}
		if len(v.Items) >= 2 {
			c := v.c10Clone()
			for i, j := 0, len(c.Items)-1; i < j; i, j = i+1, j-1 {
				c.Items[i], c.Items[j] = c.Items[j], c.Items[i]
				c.Keys[i], c.Keys[j] = c.Keys[j], c.Keys[i]
			}
			out = append(out, c10Mut{c, "map-insertion-order", true})
			if !c10RefEq(*t.Map, v.Items[0], v.Items[1]) && c10Wf(*t.Map, v.Items[0]) && c10Wf(*t.Map, v.Items[1]) {
				c := v.c10Clone()
				c.Items[0], c.Items[1] = c.Items[1], c.Items[0]
				out = append(out, c10Mut{c, "map-values-swapped", false})
			}
		}
		if len(v.Items) == 0 {
			c := v.c10Clone()
			c.NilColl = !c.NilColl
			out = append(out, c10Mut{c, "nil-vs-empty", true})
		}
		c := v.c10Clone()
		c.Keys = append(c.Keys, c10FreshKey(v.Keys, "k"))
		c.Items = append(c.Items, s.gen(r, *t.Map, gopts))
		out = append(out, c10Mut{c, "map-entry-added", false})
	default:
		n := s.Types[t.Reference.Name]
		switch n.Kind {
		case "enum":
			for k := int64(0); k <= int64(len(n.Symbols))+1; k++ {
				if k != v.Z {
					out = append(out, c10Mut{&Val{K: "enum", Z: k}, "enum", false})
				}
			}
		case "fixed":
			for i := 0; i < len(v.S); i++ {
				c := v.c10Clone()
				b := []byte(c.S)
				b[i] ^= 1 << uint(r.Intn(8))
				c.S = string(b)
				out = append(out, c10Mut{c, "fixed", false})
			}
		case "typeref":
			return c10MutPrim(r, n.Prim, v)
		case "record":
			for i, inc := range n.Includes {
				sub(incs, i, s.c10Muts(r, ref(inc), v.Incs[i]))
			}
			for i, f := range n.Fields {
				if f.IsOptional || f.DefaultValue != nil {
					optional(i, f.Type, "optional")
				} else {
					sub(fields, i, s.c10Muts(r, f.Type, v.Fields[i]))
				}
			}
		case "standaloneUnion":
			set := -1
			for i := range n.Members {
				if v.Fields[i] != nil {
					set = i
				}
			}
			for i, m := range n.Members {
				if v.Fields[i] != nil {
					sub(fields, i, s.c10Muts(r, m.Type, v.Fields[i]))
					sub(fields, i, []c10Mut{{nil, "union-member-unset", false}})
				} else {
					// another member instead of the current one, and in addition to it
					c := v.c10Clone()
					if set >= 0 {
						c.Fields[set] = nil
					}
					c.Fields[i] = s.gen(r, m.Type, gopts)
					out = append(out, c10Mut{c, "union-member-switched", false})
					c = v.c10Clone()
					c.Fields[i] = c10Zero(m.Type)
					out = append(out, c10Mut{c, "union-member-added", false})
				}
			}
		}
	}
	return out
}

func c10FreshKey(keys []string, base string) string {
	k := base + "'"
	for {
		dup := false
		for _, x := range keys {
			if x == k {
				dup = true
			}
		}
		if !dup {
			return k
		}
		k += "'"
	}
}

// every map of the value listed (hence inserted) in another order
func (v *Val) c10Shuffle(r *hx.Rand) (changed bool) {
	if v == nil {
		return false
	}
	for _, l := range [][]*Val{v.Incs, v.Fields, v.Items} {
		for _, x := range l {
			if x.c10Shuffle(r) {
				changed = true
			}
		}
	}
	if v.K == "map" && len(v.Items) >= 2 {
		for i := len(v.Items) - 1; i > 0; i-- {
			j := r.Intn(i + 1)
			if i != j {
				changed = true
			}
			v.Items[i], v.Items[j] = v.Items[j], v.Items[i]
			v.Keys[i], v.Keys[j] = v.Keys[j], v.Keys[i]
		}
	}
	return changed
}

// the driver's setPrim stores a float32 through float64 (reflect.SetFloat): a signalling NaN comes out quiet.  The abstract value
// must carry the bits the Go object really holds.
func (v *Val) c10FixNaN() *Val {
	if v == nil {
		return nil
	}
	if v.K == "float" {
		f := math.Float32frombits(uint32(v.Bits))
		if f != f {
			v.Bits = uint64(math.Float32bits(float32(float64(f))))
		}
	}
	for _, l := range [][]*Val{v.Incs, v.Fields, v.Items} {
		for _, x := range l {
			x.c10FixNaN()
		}
	}
	return v
}

// ---- observation of the implementation
type c10Type struct {
	name string // schema name, or "prim:<p>" for the library key types
	t    RType
	mode int // 0: Equals / ComputeHash; 1: ComplexKeyEquals / ComputeComplexKeyHash
}

func (ty c10Type) label() string {
	if ty.mode == 1 {
		return ty.name + "#complexKey"
	}
	return ty.name
}

// a Go object for the abstract value: pointer to the generated type, or the primitive itself
func (ty c10Type) build(v *Val) reflect.Value {
	if strings.HasPrefix(ty.name, "prim:") {
		var T reflect.Type
		switch ty.t.Primitive {
		case "int32":
			T = reflect.TypeOf(int32(0))
		case "int64":
			T = reflect.TypeOf(int64(0))
		case "float32":
			T = reflect.TypeOf(float32(0))
		case "float64":
			T = reflect.TypeOf(float64(0))
		case "bool":
			T = reflect.TypeOf(false)
		case "string":
			T = reflect.TypeOf("")
		default:
			T = reflect.TypeOf([]byte(nil))
		}
		p := reflect.New(T)
		setPrim(ty.t.Primitive, v, p.Elem())
		return p
	}
	p := reflect.New(registry[ty.name])
	schema.toGo(ty.t, v, p.Elem())
	return p
}

func (ty c10Type) hash(p reflect.Value) (h fnv1a.Hash, ok bool) {
	defer func() {
		if recover() != nil {
			ok = false
		}
	}()
	if strings.HasPrefix(ty.name, "prim:") {
		switch x := p.Elem().Interface().(type) {
		case int32:
			return fnv1a.HashInt32(x), true
		case int64:
			return fnv1a.HashInt64(x), true
		case float32:
			return fnv1a.HashFloat32(x), true
		case float64:
			return fnv1a.HashFloat64(x), true
		case bool:
			return fnv1a.HashBool(x), true
		case string:
			return fnv1a.HashString(x), true
		case []byte:
			return fnv1a.HashBytes(x), true
		}
		return nil, false
	}
	name := "ComputeHash"
	if ty.mode == 1 {
		name = "ComputeComplexKeyHash"
	}
	m := p.MethodByName(name)
	if !m.IsValid() {
		return nil, false
	}
	return m.Call(nil)[0].Interface().(fnv1a.Hash), true
}

func (ty c10Type) equal(a, b reflect.Value) (eq bool, ok bool) {
	defer func() {
		if recover() != nil {
			ok = false
		}
	}()
	if strings.HasPrefix(ty.name, "prim:") {
		switch x := a.Elem().Interface().(type) {
		case int32:
			return x == b.Elem().Interface().(int32), true
		case int64:
			return x == b.Elem().Interface().(int64), true
		case float32:
			return x == b.Elem().Interface().(float32), true
		case float64:
			return x == b.Elem().Interface().(float64), true
		case bool:
			return x == b.Elem().Interface().(bool), true
		case string:
			return x == b.Elem().Interface().(string), true
		case []byte:
			return equals.Bytes(x, b.Elem().Interface().([]byte)), true
		}
		return false, false
	}
	if ty.mode == 1 {
		m := a.MethodByName("ComplexKeyEquals")
		if !m.IsValid() {
			return false, false
		}
		return m.Call([]reflect.Value{b})[0].Bool(), true
	}
	return callEquals(a, b)
}

// the part of the value the mode looks at
func (ty c10Type) part(v *Val) (RType, *Val) {
	if ty.mode == 1 {
		return ref(schema.Types[ty.name].Includes[0]), v.Incs[0]
	}
	return ty.t, v
}

type c10Entry struct {
	v     *Val
	label string
	eq    bool // expected Equal to entry 0 (labels: base, copy, roundtrip, permuted, and eq-preserving mutations)
	mut   bool
}

type c10Desc struct {
	Mode   string   `json:"mode"`
	Type   string   `json:"type"`
	Labels []string `json:"labels,omitempty"`
	Values []*Val   `json:"values"`
	Hashes []uint32 `json:"hashes,omitempty"`
	Note   string   `json:"note,omitempty"`
}

func c10Describe(ty c10Type, es []c10Entry, idx ...int) c10Desc {
	d := c10Desc{Mode: "c10", Type: ty.label()}
	for _, i := range idx {
		d.Values = append(d.Values, es[i].v.c10Clone().fixJSON())
		d.Labels = append(d.Labels, es[i].label)
	}
	return d
}

// run one pool: all observations, the oracle, and (when sh != nil) the case for the model
func c10RunPool(ty c10Type, es []c10Entry, rep *hx.Report, sh *hx.Shards, modelMax int) {
	n := len(es)
	for i := range es {
		es[i].v.c10FixNaN()
	}
	site := "generated Equals / ComputeHash (v2/codegen/types/record_equals.go, record_hash.go), v2/fnv1a/hasher.go"
	A := make([]reflect.Value, n)
	B := make([]reflect.Value, n)
	H := make([]uint32, n)
	HH := make([]fnv1a.Hash, n)
	wf := make([]bool, n)
	parts := make([]*Val, n)
	var pt RType
	for i, e := range es {
		A[i], B[i] = ty.build(e.v), ty.build(e.v)
		pt, parts[i] = ty.part(e.v)
		wf[i] = c10Wf(pt, parts[i])
		ha, ok1 := ty.hash(A[i])
		hb, ok2 := ty.hash(B[i])
		ha2, _ := ty.hash(A[i])
		if !ok1 || !ok2 {
			rep.Fail("hash:panic", "ComputeHash panicked", site, c10Describe(ty, es, i), nil)
			return
		}
		H[i], HH[i] = uint32(ha.MapKey()), ha
		if uint32(hb.MapKey()) != H[i] || uint32(ha2.MapKey()) != H[i] {
			rep.Fail("hash:not-a-function-of-the-value", "two computations of the hash of the same value differ (separately built copy / second call)", site, c10Describe(ty, es, i), []uint32{H[i], uint32(hb.MapKey()), uint32(ha2.MapKey())})
		}
		if s := ha.String(); s != strconv.FormatUint(uint64(H[i]), 16) {
			rep.Fail("hash:string", "Hash.String is not the hexadecimal value", "v2/fnv1a/hasher.go:51", c10Describe(ty, es, i), s)
		}
	}
	eq := make([][]bool, n)
	for i := range es {
		eq[i] = make([]bool, n)
		for j := range es {
			r, ok := ty.equal(A[i], B[j])
			if !ok {
				rep.Fail("equals:panic", "Equals panicked", site, c10Describe(ty, es, i, j), nil)
				return
			}
			eq[i][j] = r
			rep.Evaluations++
			want := c10RefEq(pt, parts[i], parts[j])
			switch {
			case r && !want:
				kind := es[j].label
				if i != 0 {
					kind = "pair"
				}
				rep.Fail("equals:misses-a-difference:"+c10Kind(kind), "two values that differ at some position are Equal", site, c10Describe(ty, es, i, j), nil)
			case !r && want:
				rep.Fail("equals:rejects-same-value:"+c10Kind(es[j].label), "two values without any difference (maps in another order / nil vs empty / +0 vs -0 / separately built copy) are not Equal", site, c10Describe(ty, es, i, j), nil)
			}
			if r && H[i] != H[j] {
				rep.Fail("hash:equal-values-hash-differently", "two Equal values have different hashes", "v2/fnv1a/hasher.go", c10Describe(ty, es, i, j), []uint32{H[i], H[j]})
			}
			if HH[i].Equals(HH[j]) != (H[i] == H[j]) {
				rep.Fail("hash:hash-equals", "fnv1a.Hash.Equals disagrees with the equality of the 32-bit values", "v2/fnv1a/hasher.go:143", c10Describe(ty, es, i, j), []uint32{H[i], H[j]})
			}
		}
		if wf[i] {
			if !eq[i][i] {
				rep.Fail("equals:not-reflexive", "a valid NaN-free value is not Equal to a separately built copy of itself", site, c10Describe(ty, es, i), nil)
			}
			if r, ok := ty.equal(A[i], A[i]); ok && !r {
				rep.Fail("equals:not-reflexive", "a valid NaN-free value is not Equal to itself", site, c10Describe(ty, es, i), nil)
			}
		}
	}
	for i := range es {
		for j := range es {
			if wf[i] && wf[j] && eq[i][j] != eq[j][i] {
				rep.Fail("equals:not-symmetric", "Equals(a,b) differs from Equals(b,a)", site, c10Describe(ty, es, i, j), nil)
			}
			if !(wf[i] && wf[j] && eq[i][j]) {
				continue
			}
			for k := range es {
				if wf[k] && eq[j][k] && !eq[i][k] {
					rep.Fail("equals:not-transitive", "Equals(a,b) and Equals(b,c) but not Equals(a,c)", site, c10Describe(ty, es, i, j, k), nil)
				}
			}
		}
	}
	// expectations attached to the construction of the pool
	for j, e := range es {
		if j == 0 {
			continue
		}
		if e.eq && wf[0] && !eq[0][j] {
			rep.Fail("equals:rejects-same-value:"+c10Kind(e.label), "a copy that must be Equal to the original (separately built / round-tripped / maps in another order / nil vs empty / +0 vs -0) is not", site, c10Describe(ty, es, 0, j), nil)
		}
		if e.mut && !e.eq && ty.mode == 0 && eq[0][j] {
			rep.Fail("equals:misses-a-difference:"+c10Kind(e.label), "a single-position mutation is not distinguished", site, c10Describe(ty, es, 0, j), nil)
		}
		rep.Count("entry=" + c10Kind(e.label))
	}
	rep.Count("type=" + ty.label())
	nt := false
	for j := 1; j < n; j++ {
		if eq[0][j] && es[j].label != "copy" {
			nt = true
		}
	}
	rep.Distinct(ty.label()+valKey(es[0].v.c10Clone()), nt)
	if sh == nil {
		return
	}
	// the case for the model: the first modelMax entries (base, copies, then mutations)
	m := n
	if m > modelMax {
		m = modelMax
	}
	vals := make([]string, m)
	rows := make([]string, m)
	d := c10Desc{Mode: "c10", Type: ty.label()}
	for i := 0; i < m; i++ {
		vals[i] = fmt.Sprintf("(%s, %d%%N)", es[i].v.Coq(), H[i])
		bs := make([]string, m)
		for j := 0; j < m; j++ {
			bs[j] = hx.CoqBool(eq[i][j])
		}
		rows[i] = "[" + strings.Join(bs, ";") + "]"
		d.Values = append(d.Values, es[i].v.c10Clone().fixJSON())
		d.Labels = append(d.Labels, es[i].label)
		d.Hashes = append(d.Hashes, H[i])
	}
	term := fmt.Sprintf("{| c_mode := %d; c_ty := %s; c_vals := [%s]; c_eq := [%s] |}", ty.mode, c10Ty(ty.t), strings.Join(vals, ";\n  "), strings.Join(rows, ";"))
	if len(rep.Samples) < 4 && nt {
		rep.Sample(c10Describe(ty, es, 0, 1))
	}
	sh.Add(term, d)
}

// label -> stable kind for signatures (strip positions)
func c10Kind(label string) string {
	if i := strings.Index(label, "@"); i >= 0 {
		return label[:i]
	}
	return label
}

// the pool around a base value
func c10Pool(r *hx.Rand, ty c10Type, base *Val, maxMuts int) (es []c10Entry, allMuts []c10Entry) {
	es = append(es, c10Entry{v: base, label: "base", eq: true})
	es = append(es, c10Entry{v: base.c10Clone(), label: "copy", eq: true})
	// JSON round trip (generated types only; expected Equal only when the decoded abstract value is the original)
	if !strings.HasPrefix(ty.name, "prim:") && allValidUtf8(base) && schema.valid(ty.t, base) && schema.Types[ty.name].Key == "" {
		p := ty.build(base)
		if out, oc := encode(p, 0, nil); oc.Class == "ok" {
			if doc, back := decodeVal(ty.name, 0, out, nil, 0); doc.Class == "ok" {
				es = append(es, c10Entry{v: back, label: "roundtrip", eq: valEq(back, base) && !base.hasNaN()})
			}
		}
	}
	for k := 0; k < 2; k++ {
		c := base.c10Clone()
		if c.c10Shuffle(r) {
			es = append(es, c10Entry{v: c, label: "permuted", eq: true})
		}
	}
	muts := schema.c10Muts(r, ty.t, base)
	var eqs, nes []c10Entry
	for _, m := range muts {
		e := c10Entry{v: m.v, label: m.kind, eq: m.eq, mut: true}
		allMuts = append(allMuts, e)
		if m.eq {
			eqs = append(eqs, e)
		} else {
			nes = append(nes, e)
		}
	}
	// eq-preserving mutations first (they are few), then a sample of the others
	if len(eqs) > 6 {
		c10ShuffleN(r, len(eqs), func(i, j int) { eqs[i], eqs[j] = eqs[j], eqs[i] })
		eqs = eqs[:6]
	}
	es = append(es, eqs...)
	if len(nes) > maxMuts {
		c10ShuffleN(r, len(nes), func(i, j int) { nes[i], nes[j] = nes[j], nes[i] })
		nes = nes[:maxMuts]
	}
	es = append(es, nes...)
	return es, allMuts
}

func c10Types() []c10Type {
	var tys []c10Type
	for _, p := range []string{"int32", "int64", "float32", "float64", "bool", "string", "bytes"} {
		tys = append(tys, c10Type{name: "prim:" + p, t: RType{Primitive: p}})
	}
	names := append([]string{}, schema.Top...)
	names = append(names, "Tlong", "Tstr", "CK", "Alias", "Alias2") // Alias: includes only, no own fields
	for _, n := range names {
		tys = append(tys, c10Type{name: n, t: ref(n)})
	}
	tys = append(tys, c10Type{name: "CK", t: ref("CK"), mode: 1})
	return tys
}

func c10Base(r *hx.Rand, ty c10Type, i int) *Val {
	o := genOpts{utf8: r.Chance(80), depth: 1 + r.Intn(3)}
	if i%5 == 4 {
		o.invalid = true // invalid enum constants / union member counts: Equals must still discriminate; not "valid values"
	}
	v := schema.gen(r, ty.t, o)
	if ty.name == "CK" {
		// params present in most keys
		if v.Fields[0] == nil && r.Chance(70) {
			v.Fields[0] = schema.gen(r, ref(schema.Types["CK"].Params), o)
		}
	}
	return v
}

func runC10(cfg *hx.Config) {
	c10PatchSchema()
	rep := hx.NewReport("types: the 7 library key primitives (fnv1a.HashX / == / equals.Bytes), every family type through the REAL generator (records with every primitive, " +
		"optional and defaulted fields, includes (two levels), collections (nested arrays/maps, bytes, floats), unions (nullable or not), recursive records, enum, fixed, typerefs) and the " +
		"complex key (Equals/ComputeHash and ComplexKeyEquals/ComputeComplexKeyHash) x seeded base values x pool {base, separately built copy, JSON round-tripped copy, copies with every map " +
		"listed and inserted in another order, every single-position mutation: field / element / entry / key / member / optional presence, +0 vs -0, NaN, nil vs empty, unset vs zero-valued optional}; " +
		"ALL mutations are compared with the base on the implementation; a capped sub-pool goes through all pairs and all triples (implementation) and all pairs + hashes (model). " +
		"non-trivial = the pool holds a value Equal to the base other than the plain copy; distinct by (type, base value)")
	sh := hx.NewShards(cfg.Out, c10Header("HashCorr"), "HashCorrI", 12)
	r := hx.NewRand(cfg.Seed)

	if cfg.Replay != "" {
		c10Replay(cfg, rep, sh)
		sh.Close()
		rep.Shards = sh.Files
		rep.Write(cfg.Out)
		return
	}
	nBase, maxMuts, modelMax := 14, 16, 26
	if cfg.Thorough() {
		nBase, maxMuts, modelMax = 60, 30, 36
	}
	for _, ty := range c10Types() {
		nb := nBase
		if strings.HasPrefix(ty.name, "prim:") || ty.name == "Tlong" || ty.name == "Tstr" || ty.name == "Color" || ty.name == "Fx4" {
			nb = (nBase + 1) / 2
		}
		for i := 0; i < nb; i++ {
			base := c10Base(r, ty, i)
			es, all := c10Pool(r, ty, base, maxMuts)
			c10RunPool(ty, es, rep, sh, modelMax)
			// every mutation against the base (implementation only), in chunks
			for k := 0; k < len(all); k += 24 {
				hi := k + 24
				if hi > len(all) {
					hi = len(all)
				}
				chunk := append([]c10Entry{{v: base, label: "base", eq: true}}, all[k:hi]...)
				c10RunPool(ty, chunk, rep, nil, 0)
			}
			rep.CountN("mutations", len(all))
		}
	}
	// the special floats as keys, exhaustively against each other
	for _, ty := range c10Types() {
		if ty.name != "prim:float32" && ty.name != "prim:float64" {
			continue
		}
		var es []c10Entry
		if ty.name == "prim:float32" {
			for _, f := range f32s {
				es = append(es, c10Entry{v: &Val{K: "float", Bits: uint64(math.Float32bits(f))}, label: "special", eq: false})
			}
		} else {
			for _, f := range f64s {
				es = append(es, c10Entry{v: &Val{K: "double", Bits: math.Float64bits(f)}, label: "special", eq: false})
			}
		}
		es[0].eq = true
		for i := range es {
			es[i].eq = i < 2 // +0 and -0 lead both tables
		}
		c10RunPool(ty, es, rep, sh, len(es))
	}
	sh.Close()
	rep.Shards = sh.Files
	rep.Write(cfg.Out)
}

// replay of a failing input: {"case": {"type": T[#complexKey], "values": [...]}}
func c10Replay(cfg *hx.Config, rep *hx.Report, sh *hx.Shards) {
	b, err := os.ReadFile(cfg.Replay)
	if err != nil {
		panic(err)
	}
	var rp struct {
		Case c10Desc `json:"case"`
	}
	if err := json.Unmarshal(b, &rp); err != nil {
		panic(err)
	}
	name, mode := rp.Case.Type, 0
	if strings.HasSuffix(name, "#complexKey") {
		name, mode = strings.TrimSuffix(name, "#complexKey"), 1
	}
	for _, ty := range c10Types() {
		if ty.name != name || ty.mode != mode {
			continue
		}
		var es []c10Entry
		for i, v := range rp.Case.Values {
			v.c10Unfix()
			l := "replayed"
			if i < len(rp.Case.Labels) {
				l = rp.Case.Labels[i]
			}
			es = append(es, c10Entry{v: v, label: l, eq: false})
		}
		if len(es) > 0 {
			es[0].eq = true
			c10RunPool(ty, es, rep, sh, len(es))
		}
	}
}

// inverse of fixJSON (strings are stored quoted)
func (v *Val) c10Unfix() {
	if v == nil {
		return
	}
	if v.SHex != "" {
		if s, err := strconv.Unquote(v.SHex); err == nil {
			v.S = s
		}
	}
	v.Keys = nil
	for _, k := range v.KeysQ {
		s, _ := strconv.Unquote(k)
		v.Keys = append(v.Keys, s)
	}
	for _, l := range [][]*Val{v.Incs, v.Fields, v.Items} {
		for _, x := range l {
			x.c10Unfix()
		}
	}
}

func c10ShuffleN(r *hx.Rand, n int, swap func(i, j int)) {
	for i := n - 1; i > 0; i-- {
		swap(i, r.Intn(i+1))
	}
}

var _ = sort.Strings
