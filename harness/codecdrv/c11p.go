package main

import (
	"encoding/json"
	"fmt"
	"reflect"
	"sort"
	"strings"

	"github.com/PapaCharlie/go-restli/v2/restli/patch"
	"github.com/PapaCharlie/go-restli/v2/restlicodec"
	"verifgen/gen/fam"
	"verifgen/hx"
)

// C11 / C07, partial updates: the generated X_PartialUpdate structs (CheckFields, MarshalRestLi, UnmarshalRestLi) with writers and
// readers constructed WithExcludedFields.  Mode c11p.

// the generated partial-update struct types of the family, by record name
var patchRegistry = map[string]reflect.Type{
	"Inner":  reflect.TypeOf(fam.Inner_PartialUpdate{}),
	"Prims":  reflect.TypeOf(fam.Prims_PartialUpdate{}),
	"Opts":   reflect.TypeOf(fam.Opts_PartialUpdate{}),
	"Dflt":   reflect.TypeOf(fam.Dflt_PartialUpdate{}),
	"Coll":   reflect.TypeOf(fam.Coll_PartialUpdate{}),
	"WithU":  reflect.TypeOf(fam.WithU_PartialUpdate{}),
	"DOuter": reflect.TypeOf(fam.DOuter_PartialUpdate{}),
	"Incl":   reflect.TypeOf(fam.Incl_PartialUpdate{}),
	"Incl2":  reflect.TypeOf(fam.Incl2_PartialUpdate{}),
	"Rec":    reflect.TypeOf(fam.Rec_PartialUpdate{}),
	"Big":    reflect.TypeOf(fam.Big_PartialUpdate{}),
}

// ---- abstract patch (mirrors Coq's Codec.Patch.patch): one slot per OWN field in declaration order
type PVal struct {
	Incs    []*PVal `json:"incs,omitempty"`
	Deletes []bool  `json:"deletes"`
	Sets    []*Val  `json:"sets"`
	Nested  []*PVal `json:"nested"`
}

func (s *Schema) zeroPatch(name string) *PVal {
	n := s.Types[name]
	p := &PVal{Deletes: make([]bool, len(n.Fields)), Sets: make([]*Val, len(n.Fields)), Nested: make([]*PVal, len(n.Fields))}
	for _, inc := range n.Includes {
		p.Incs = append(p.Incs, s.zeroPatch(inc))
	}
	return p
}

func (p *PVal) clone() *PVal {
	if p == nil {
		return nil
	}
	c := &PVal{Deletes: append([]bool{}, p.Deletes...), Sets: append([]*Val{}, p.Sets...)}
	for _, x := range p.Incs {
		c.Incs = append(c.Incs, x.clone())
	}
	for _, x := range p.Nested {
		c.Nested = append(c.Nested, x.clone())
	}
	return c
}

func (p *PVal) fixJSON() *PVal {
	if p == nil {
		return nil
	}
	for _, x := range p.Incs {
		x.fixJSON()
	}
	for _, x := range p.Sets {
		x.fixJSON()
	}
	for _, x := range p.Nested {
		x.fixJSON()
	}
	return p
}

func (p *PVal) Coq() string {
	incs := make([]string, len(p.Incs))
	for i, x := range p.Incs {
		incs[i] = x.Coq()
	}
	ds := make([]string, len(p.Deletes))
	for i, d := range p.Deletes {
		ds[i] = hx.CoqBool(d)
	}
	ns := make([]string, len(p.Nested))
	for i, x := range p.Nested {
		if x == nil {
			ns[i] = "None"
		} else {
			ns[i] = "(Some " + x.Coq() + ")"
		}
	}
	return "(PPatch [" + strings.Join(incs, ";") + "] [" + strings.Join(ds, ";") + "] " + coqOptVals(p.Sets) + " [" + strings.Join(ns, ";") + "])"
}

func (p *PVal) vals(out *[]*Val) {
	if p == nil {
		return
	}
	for _, x := range p.Incs {
		x.vals(out)
	}
	for _, v := range p.Sets {
		if v != nil {
			*out = append(*out, v)
		}
	}
	for _, x := range p.Nested {
		x.vals(out)
	}
}

func pvEq(a, b *PVal) bool {
	if a == nil || b == nil {
		return a == nil && b == nil
	}
	if len(a.Incs) != len(b.Incs) || len(a.Deletes) != len(b.Deletes) || len(a.Sets) != len(b.Sets) || len(a.Nested) != len(b.Nested) {
		return false
	}
	for i := range a.Incs {
		if !pvEq(a.Incs[i], b.Incs[i]) {
			return false
		}
	}
	for i := range a.Deletes {
		if a.Deletes[i] != b.Deletes[i] {
			return false
		}
	}
	if !valsEq(a.Sets, b.Sets) {
		return false
	}
	for i := range a.Nested {
		if !pvEq(a.Nested[i], b.Nested[i]) {
			return false
		}
	}
	return true
}

func isOptional(f Field) bool { return f.IsOptional || f.DefaultValue != nil }
func (s *Schema) recordOf(t RType) string {
	if t.Reference == nil {
		return ""
	}
	if n := s.Types[t.Reference.Name]; n != nil && n.Kind == "record" {
		return n.Name
	}
	return ""
}

// ---- abstract patch <-> generated struct (reflection)
func (s *Schema) toGoPatch(name string, p *PVal, dst reflect.Value) {
	n := s.Types[name]
	for i, inc := range n.Includes {
		s.toGoPatch(inc, p.Incs[i], dst.FieldByName(inc+"_PartialUpdate"))
	}
	del := dst.FieldByName("Delete_Fields")
	set := dst.FieldByName("Set_Fields")
	for i, f := range n.Fields {
		if isOptional(f) && p.Deletes[i] {
			del.FieldByName(goFieldName(f.Name)).SetBool(true)
		}
		if p.Sets[i] != nil {
			s.toGo(f.Type, p.Sets[i], set.FieldByName(goFieldName(f.Name)))
		}
		if r := s.recordOf(f.Type); r != "" && p.Nested[i] != nil {
			fv := dst.FieldByName(goFieldName(f.Name))
			fv.Set(reflect.New(fv.Type().Elem()))
			s.toGoPatch(r, p.Nested[i], fv.Elem())
		}
	}
}

func (s *Schema) fromGoPatch(name string, src reflect.Value) *PVal {
	n := s.Types[name]
	p := &PVal{Deletes: make([]bool, len(n.Fields)), Sets: make([]*Val, len(n.Fields)), Nested: make([]*PVal, len(n.Fields))}
	for _, inc := range n.Includes {
		p.Incs = append(p.Incs, s.fromGoPatch(inc, src.FieldByName(inc+"_PartialUpdate")))
	}
	del := src.FieldByName("Delete_Fields")
	set := src.FieldByName("Set_Fields")
	for i, f := range n.Fields {
		if isOptional(f) {
			p.Deletes[i] = del.FieldByName(goFieldName(f.Name)).Bool()
		}
		p.Sets[i] = s.fromGo(f.Type, set.FieldByName(goFieldName(f.Name)))
		if r := s.recordOf(f.Type); r != "" {
			fv := src.FieldByName(goFieldName(f.Name))
			if !fv.IsNil() {
				p.Nested[i] = s.fromGoPatch(r, fv.Elem())
			}
		}
	}
	return p
}

// ---- the property read independently of the library -------------------------------------------------------------------
// a partial update on a record addresses the record's fields, those of included records being the record's own (flattened)
type touch struct {
	f       Field
	d, s    bool
	v       *Val
	nested  *PVal
	incDepth int // 0 = own field of the record, k = field of a record reached through k includes
}

func (s *Schema) touches(name string, p *PVal, depth int, out *[]touch) {
	n := s.Types[name]
	for i, inc := range n.Includes {
		s.touches(inc, p.Incs[i], depth+1, out)
	}
	for i, f := range n.Fields {
		t := touch{f: f, d: isOptional(f) && p.Deletes[i], s: p.Sets[i] != nil, v: p.Sets[i], incDepth: depth}
		if s.recordOf(f.Type) != "" {
			t.nested = p.Nested[i]
		}
		*out = append(*out, t)
	}
}

// legal: no field both deleted and set / set and patched / deleted and patched; no touched field excluded (at any depth of
// nested patches); set values valid.  Returns the reason of the first violation ("" = legal) and whether that violation sits
// inside a nested patch of a record-typed field inherited from an included record.
func (s *Schema) legalPatch(name string, p *PVal, directives []string, path []string) (reason string, inherited bool) {
	var ts []touch
	s.touches(name, p, 0, &ts)
	for _, t := range ts {
		cnt := 0
		for _, b := range []bool{t.d, t.s, t.nested != nil} {
			if b {
				cnt++
			}
		}
		if cnt == 0 {
			continue
		}
		fp := append(append([]string{}, path...), t.f.Name)
		if cnt > 1 {
			return "multi", false
		}
		if specExcludes(directives, fp) {
			return "excluded", false
		}
		if t.s && !s.validUnder(t.f.Type, t.v, directives, fp) {
			return "invalid-set-value", false
		}
	}
	for _, t := range ts {
		if t.nested != nil {
			if r, inh := s.legalPatch(s.recordOf(t.f.Type), t.nested, directives, append(append([]string{}, path...), t.f.Name)); r != "" {
				return r, inh || t.incDepth > 0
			}
		}
	}
	return "", false
}

// what the generated code is known to lose (genuine defects, see known_findings.json): used only to give failures a
// narrow signature
func (s *Schema) hazards(name string, p *PVal) []string {
	set := map[string]bool{}
	var walk func(name string, p *PVal)
	walk = func(name string, p *PVal) {
		var ts []touch
		s.touches(name, p, 0, &ts)
		for _, t := range ts {
			if t.nested != nil && t.incDepth > 0 {
				set["inherited-nested"] = true
			}
			if t.d && t.incDepth > 1 {
				set["transitive-delete"] = true
			}
			if t.nested != nil {
				walk(s.recordOf(t.f.Type), t.nested)
			}
		}
	}
	walk(name, p)
	var out []string
	for k := range set {
		out = append(out, k)
	}
	sort.Strings(out)
	if len(out) == 0 {
		return []string{"plain"}
	}
	return out
}

// the protocol's document for a patch: {"$delete": [names], "$set": {name: value}, name: {nested patch}}
func (s *Schema) refPatchBody(name string, p *PVal) *Doc {
	var ts []touch
	s.touches(name, p, 0, &ts)
	d := &Doc{Kind: "obj"}
	del := &Doc{Kind: "arr"}
	set := &Doc{Kind: "obj"}
	for _, t := range ts {
		if t.d {
			del.Items = append(del.Items, &Doc{Kind: "str", S: t.f.Name})
		}
		if t.s {
			set.Keys = append(set.Keys, t.f.Name)
			set.Items = append(set.Items, s.refEncode(t.f.Type, t.v))
		}
	}
	if len(del.Items) > 0 {
		d.Keys = append(d.Keys, "$delete")
		d.Items = append(d.Items, del)
	}
	if len(set.Items) > 0 {
		d.Keys = append(d.Keys, "$set")
		d.Items = append(d.Items, set)
	}
	for _, t := range ts {
		if t.nested != nil {
			d.Keys = append(d.Keys, t.f.Name)
			d.Items = append(d.Items, s.refPatchBody(s.recordOf(t.f.Type), t.nested))
		}
	}
	return d
}
func (s *Schema) refPatchDoc(name string, p *PVal) *Doc {
	return &Doc{Kind: "obj", Keys: []string{"patch"}, Items: []*Doc{s.refPatchBody(name, p)}}
}

// does a set value carry something at an excluded path strictly below the field itself?
func (s *Schema) setValuesCarry(name string, p *PVal, directives []string, path []string) bool {
	var ts []touch
	s.touches(name, p, 0, &ts)
	var walk func(d *Doc, path []string, top bool) bool
	walk = func(d *Doc, path []string, top bool) bool {
		if !top && d.Kind != "null" && path[len(path)-1] != "*" && specExcludes(directives, path) {
			return true
		}
		switch d.Kind {
		case "obj":
			for i, k := range d.Keys {
				if walk(d.Items[i], append(append([]string{}, path...), k), false) {
					return true
				}
			}
		case "arr":
			for _, x := range d.Items {
				if walk(x, append(append([]string{}, path...), "*"), true) {
					return true
				}
			}
		}
		return false
	}
	for _, t := range ts {
		fp := append(append([]string{}, path...), t.f.Name)
		if t.s && walk(s.refEncode(t.f.Type, t.v), fp, true) {
			return true
		}
		if t.nested != nil && s.setValuesCarry(s.recordOf(t.f.Type), t.nested, directives, fp) {
			return true
		}
	}
	return false
}

func (s *Schema) allValid(name string, p *PVal) bool {
	var ts []touch
	s.touches(name, p, 0, &ts)
	for _, t := range ts {
		if t.s && !s.valid(t.f.Type, t.v) {
			return false
		}
		if t.nested != nil && !s.allValid(s.recordOf(t.f.Type), t.nested) {
			return false
		}
	}
	return true
}

// the struct expected back from a decode: set values with the schema defaults filled in (what decoding a record always does)
func (s *Schema) expectPatch(name string, p *PVal, fill func(t RType, v *Val) *Val) *PVal {
	if p == nil {
		return nil
	}
	n := s.Types[name]
	out := &PVal{Deletes: append([]bool{}, p.Deletes...), Sets: make([]*Val, len(p.Sets)), Nested: make([]*PVal, len(p.Nested))}
	for i, inc := range n.Includes {
		out.Incs = append(out.Incs, s.expectPatch(inc, p.Incs[i], fill))
	}
	for i, f := range n.Fields {
		if p.Sets[i] != nil {
			out.Sets[i] = fill(f.Type, p.Sets[i])
		}
		if r := s.recordOf(f.Type); r != "" {
			out.Nested[i] = s.expectPatch(r, p.Nested[i], fill)
		}
	}
	return out
}
func (s *Schema) sameAfterDecode(name string, got, p *PVal) bool {
	return pvEq(got, s.expectPatch(name, p, s.fillDefaults)) || pvEq(got, s.expectPatch(name, p, s.fillDefaultsAsGenerated))
}

// ---- generation ----------------------------------------------------------------------------------------------------
func (s *Schema) genSetValue(r *hx.Rand, t RType, invalid bool) *Val {
	v := s.gen(r, t, genOpts{utf8: true, invalid: invalid, depth: 1})
	clearNil(v)
	return v
}
func clearNil(v *Val) {
	if v == nil {
		return
	}
	v.NilColl = false
	for _, l := range [][]*Val{v.Incs, v.Fields, v.Items} {
		for _, x := range l {
			clearNil(x)
		}
	}
}

// seeded: mostly one touch per field, some illegal combinations
func (s *Schema) genPatch(r *hx.Rand, name string, depth int, illegalPct int, invalid bool) *PVal {
	n := s.Types[name]
	p := s.zeroPatch(name)
	for i, inc := range n.Includes {
		p.Incs[i] = s.genPatch(r, inc, depth, illegalPct, invalid)
	}
	density := 25 + r.Intn(50)
	for i, f := range n.Fields {
		rec := s.recordOf(f.Type)
		if !r.Chance(density) {
			continue
		}
		var kinds []int // 0 delete 1 set 2 nested
		if isOptional(f) {
			kinds = append(kinds, 0)
		}
		kinds = append(kinds, 1)
		if rec != "" && depth > 0 {
			kinds = append(kinds, 2, 2)
		}
		pick := func(k int) {
			switch k {
			case 0:
				p.Deletes[i] = true
			case 1:
				p.Sets[i] = s.genSetValue(r, f.Type, invalid)
			case 2:
				p.Nested[i] = s.genPatch(r, rec, depth-1, illegalPct, invalid)
			}
		}
		pick(kinds[r.Intn(len(kinds))])
		if r.Chance(illegalPct) {
			pick(kinds[r.Intn(len(kinds))])
		}
	}
	return p
}

// exhaustive: every combination of the flags (delete, set, nested) of every own field; nested patches drawn from `nested`
func (s *Schema) enumPatches(r *hx.Rand, name string, nested func(rec string) []*PVal) []*PVal {
	n := s.Types[name]
	out := []*PVal{s.zeroPatch(name)}
	for i, f := range n.Fields {
		var opts []func(p *PVal)
		ds := []bool{false}
		if isOptional(f) {
			ds = append(ds, true)
		}
		var ns []*PVal
		ns = append(ns, nil)
		if rec := s.recordOf(f.Type); rec != "" {
			ns = append(ns, nested(rec)...)
		}
		sv := s.genSetValue(r, f.Type, false)
		for _, d := range ds {
			for _, st := range []bool{false, true} {
				for _, np := range ns {
					d, st, np, i := d, st, np, i
					opts = append(opts, func(p *PVal) {
						p.Deletes[i] = d
						if st {
							p.Sets[i] = sv
						}
						p.Nested[i] = np.clone()
					})
				}
			}
		}
		var next []*PVal
		for _, base := range out {
			for _, o := range opts {
				c := base.clone()
				o(c)
				next = append(next, c)
			}
		}
		out = next
	}
	return out
}

// ---- running the implementation ------------------------------------------------------------------------------------
type setChecker map[string]bool

func (c setChecker) IsKeyExcluded(k string) bool { return c[k] }

func (s *Schema) runCheckFields(name string, p *PVal, keys []string) (ok bool, hasDel, hasSet bool, panicked interface{}) {
	ptr := reflect.New(patchRegistry[name])
	s.toGoPatch(name, p, ptr.Elem())
	fc := &patch.PartialUpdateFieldChecker{RecordType: name}
	kc := setChecker{}
	for _, k := range keys {
		kc[k] = true
	}
	func() {
		defer func() { panicked = recover() }()
		res := ptr.MethodByName("CheckFields").Call([]reflect.Value{reflect.ValueOf(fc), reflect.ValueOf(restlicodec.KeyChecker(kc))})
		ok = res[0].IsNil()
	}()
	return ok, fc.HasDeletes, fc.HasSets, panicked
}

func (s *Schema) encodePatch(name string, p *PVal, spec restlicodec.PathSpec) (string, outcome) {
	ptr := reflect.New(patchRegistry[name])
	s.toGoPatch(name, p, ptr.Elem())
	return encode(ptr, 0, spec)
}

// pre = nil: a partial_update body; pre = [entities, key]: the patch sits inside a batch_partial_update body
func (s *Schema) decodePatch(name string, pre []string, data string, spec restlicodec.PathSpec, ignore int) (outcome, *PVal) {
	var err error
	var pn interface{}
	ptr := reflect.New(patchRegistry[name])
	func() {
		defer func() { pn = recover() }()
		body := data
		for i := len(pre) - 1; i >= 0; i-- {
			body = "{" + jsonString(pre[i], jsonStyle{}) + ":" + body + "}"
		}
		var rd restlicodec.Reader
		rd, err = restlicodec.NewJsonReaderWithExcludedFields([]byte(body), spec, ignore)
		if err != nil {
			return
		}
		um := ptr.Interface().(restlicodec.Unmarshaler)
		var descend func(r restlicodec.Reader, rest []string) error
		descend = func(r restlicodec.Reader, rest []string) error {
			if len(rest) == 0 {
				return um.UnmarshalRestLi(r)
			}
			return r.ReadMap(func(r restlicodec.Reader, key string) error {
				if key == rest[0] {
					return descend(r, rest[1:])
				}
				return r.Skip()
			})
		}
		err = descend(rd, pre)
	}()
	oc := classify(err, pn)
	if oc.Class == "ok" {
		return oc, s.fromGoPatch(name, ptr.Elem())
	}
	return oc, nil
}

// ---- a case for the model
type pcase struct {
	name  string
	excl  []string
	vals  []*Val
	texts []string
	ops   []string
	desc  map[string]interface{}
	dops  []interface{}
}

func newPCase(name string, excl []string) *pcase {
	return &pcase{name: name, excl: excl, texts: append([]string{}, baseTexts...), desc: map[string]interface{}{"mode": "c11p", "type": name, "excl": excl}}
}
func (c *pcase) addPatch(p *PVal) { p.vals(&c.vals) }
func penc(oc outcome, out string) string {
	if oc.Class == "ok" {
		return "(PEncOk " + hx.CoqBytes(out) + ")"
	}
	return "(PEncFail " + coqClass(oc.Class) + ")"
}
func (c *pcase) enc(p *PVal, oc outcome, out string) {
	c.addPatch(p)
	c.ops = append(c.ops, "PEnc "+p.Coq()+" "+penc(oc, out))
	c.dops = append(c.dops, map[string]interface{}{"op": "enc", "patch": p.fixJSON(), "outcome": oc, "out": out})
}
func (c *pcase) dec(pre []string, ignore int, data string, oc outcome, got *PVal) {
	c.texts = append(c.texts, candidateTexts(data, 0)...)
	o := "(PDecFail " + coqClass(oc.Class) + ")"
	if oc.Class == "ok" && got != nil {
		c.addPatch(got)
		o = "(PDecOk " + got.Coq() + ")"
	}
	c.ops = append(c.ops, "PDec "+hx.CoqBytesList(pre)+" "+fmt.Sprint(ignore)+" "+hx.CoqBytes(data)+" "+o)
	c.dops = append(c.dops, map[string]interface{}{"op": "dec", "pre": pre, "ignore": ignore, "data": data, "outcome": oc, "decoded": got.fixJSON()})
}
func (c *pcase) chk(keys []string, p *PVal, ok, hd, hs bool) {
	c.addPatch(p)
	o := "None"
	if ok {
		o = "(Some (" + hx.CoqBool(hd) + ", " + hx.CoqBool(hs) + "))"
	}
	c.ops = append(c.ops, "PChk "+hx.CoqBytesList(keys)+" "+p.Coq()+" "+o)
	c.dops = append(c.dops, map[string]interface{}{"op": "check", "keys": keys, "patch": p.fixJSON(), "ok": ok, "hasDeletes": hd, "hasSets": hs})
}
func (c *pcase) coq() string {
	var fl []floatEnt
	for _, v := range c.vals {
		v.floats(&fl)
	}
	texts := c.texts
	for _, f := range fl {
		texts = append(texts, f.text)
	}
	return "{| c_rec := " + fmt.Sprint(schema.EnvIndex[c.name]) + "; c_floats := " + coqFloats(fl) + "; c_parse := " + coqParseTable(texts) +
		"; c_excl := " + hx.CoqBytesList(c.excl) + "; c_ops := [" + strings.Join(c.ops, ";\n  ") + "] |}"
}
func (c *pcase) describe() interface{} {
	c.desc["ops"] = c.dops
	return c.desc
}

func pheader() string {
	return "From Coq Require Import List ZArith NArith. Import ListNotations.\nFrom Coq.Strings Require Import Byte.\n" +
		"From GR Require Import Base.Bytes Base.Res Codec.Schema Codec.Doc Codec.Patch Gen.FamEnv Corr.PatchCorr.\n"
}

var patchSpecs = map[string][][]string{
	"Inner":  {nil, {"a"}, {"s"}},
	"Rec":    {nil, {"v"}, {"next"}, {"next/v"}, {"next/next"}, {"kids"}, {"next/*"}},
	"Opts":   {nil, {"i"}, {"e", "s"}},
	"Dflt":   {nil, {"d"}, {"dr"}, {"dr/a"}, {"r"}},
	"Incl":   {nil, {"z"}, {"s"}, {"a"}, {"dr"}, {"dr/a"}},
	"Incl2":  {nil, {"w"}, {"s"}, {"z"}},
	"Big":    {nil, {"e"}, {"p"}, {"p/i"}, {"o/s"}, {"inc/s"}, {"rec/next/v"}, {"dflt/dr/a"}, {"c"}, {"wu/u"}, {"/tl", "rec/kids"}},
	"DOuter": {nil, {"dn"}, {"dn/dr/a"}, {"dx"}},
	"Prims":  {nil, {"s"}},
	"Coll":   {nil, {"marr"}, {"marr/*/*/a"}},
	"WithU":  {nil, {"u"}, {"ou/fam.Inner/a"}},
}

// failures on patches that exercise one of the two known include defects get the defect's signature, whatever oracle noticed
func sigFor(hz, base string) string {
	if hz != "plain" {
		return "patch:includes:" + hz
	}
	return base
}
func handSig(tag, base string) string {
	switch {
	case strings.Contains(tag, "transitive-include"):
		return "patch:includes:transitive-delete"
	case strings.Contains(tag, ":inherited"):
		return "patch:includes:inherited-nested"
	}
	return base
}

func jsonSame(a, b string) bool {
	var x, y interface{}
	da := json.NewDecoder(strings.NewReader(a))
	da.UseNumber()
	db := json.NewDecoder(strings.NewReader(b))
	db.UseNumber()
	if da.Decode(&x) != nil || db.Decode(&y) != nil {
		return false
	}
	return reflect.DeepEqual(normJSON(x), normJSON(y))
}

// $delete is a set of names: compare it sorted
func normJSON(x interface{}) interface{} {
	switch y := x.(type) {
	case map[string]interface{}:
		for k, v := range y {
			if k == "$delete" {
				if l, ok := v.([]interface{}); ok {
					ss := make([]string, 0, len(l))
					for _, e := range l {
						ss = append(ss, fmt.Sprint(e))
					}
					sort.Strings(ss)
					y[k] = ss
					continue
				}
			}
			y[k] = normJSON(v)
		}
		return y
	case []interface{}:
		for i := range y {
			y[i] = normJSON(y[i])
		}
		return y
	}
	return x
}

func runC11P(cfg *hx.Config) {
	rep := hx.NewReport("generated X_PartialUpdate structs of the family (Inner, Rec exhaustively: every combination of the delete / set / nested-patch flags of every field, " +
		"nested patches enumerated one level down; Opts, Dflt, Incl, Incl2, Big, DOuter, Prims, Coll, WithU seeded, illegal combinations and invalid set values included) " +
		"x exclusion specs (none; a read-only field; a field of a nested record; a whole record-typed field; a wildcard below a record field): " +
		"MarshalRestLi with a compact JSON writer WithExcludedFields (client), UnmarshalRestLi of the independent reference document {\"patch\":{$delete,$set,nested}} " +
		"and of the emitted bytes with NewJsonReaderWithExcludedFields(spec, 1) and inside {\"entities\":{key:...}} with (spec, 3) (server), " +
		"CheckFields called directly with a KeyChecker excluding a chosen set of names; hand-written illegal documents. " +
		"non-trivial = the patch is illegal, or an exclusion spec is present; distinct by (type, spec, patch)")
	sh := hx.NewShards(cfg.Out, pheader(), "PatchCorr", 40)
	r := hx.NewRand(cfg.Seed)

	evalPatch := func(name string, ds []string, p *PVal, full bool) {
		spec := restlicodec.NewPathSpec(ds...)
		tds := trimAll(ds)
		c := newPCase(name, ds)
		reason, inherited := schema.legalPatch(name, p, tds, nil)
		hz := strings.Join(schema.hazards(name, p), "+")
		valid := schema.allValid(name, p)
		carry := valid && schema.setValuesCarry(name, p, tds, nil)
		cd := map[string]interface{}{"type": name, "spec": ds, "patch": p.fixJSON()}
		// (1) client: MarshalRestLi
		out, oc := schema.encodePatch(name, p, spec)
		c.enc(p, oc, out)
		cd["encode_outcome"] = oc
		cd["encode_out"] = out
		rep.Evaluations++
		switch {
		case oc.Class == "panic":
			rep.Fail("patch:encode-panic", "MarshalRestLi of a partial update panicked", "generated MarshalRestLiPatch", cd, oc.Text)
		case reason == "" && oc.Class != "ok":
			rep.Fail(sigFor(hz, "patch:legal-rejected:encode"), "a legal partial update was rejected by the encoder", "generated MarshalRestLiPatch / CheckFields", cd, oc.Text)
		case reason != "" && oc.Class == "ok":
			sig := sigFor(hz, "patch:illegal-emitted:"+reason)
			_ = inherited
			rep.Fail(sig, "an illegal partial update ("+reason+") was emitted instead of failing before anything is sent", "v2/restli/patch/partial_update_utils.go:CheckField / generated MarshalRestLiPatch", cd, out)
		}
		// (2) the protocol's document, decoded by the server-side reader
		if valid {
			ref := schema.refPatchDoc(name, p)
			if ref.jsonOK() {
				text := ref.render(0, nil, false)
				cd["document"] = text
				doDec := func(pre []string, ignore int, data string, what string) (outcome, *PVal) {
					doc, got := schema.decodePatch(name, pre, data, spec, ignore)
					c.dec(pre, ignore, data, doc, got)
					rep.Evaluations++
					dd := map[string]interface{}{"type": name, "spec": ds, "patch": p.fixJSON(), "document": data, "pre": pre, "ignore": ignore, "outcome": doc, "decoded": got.fixJSON()}
					mustReject := reason != "" || carry
					switch {
					case doc.Class == "panic":
						rep.Fail("patch:decode-panic", "UnmarshalRestLi of a partial update panicked", "generated UnmarshalRestLiPatch", dd, doc.Text)
					case mustReject && doc.Class == "ok":
						sig := "patch:illegal-document-accepted:" + what + ":" + reason
						if reason == "" {
							sig = "patch:illegal-document-accepted:" + what + ":set-value-carries-excluded"
						}
						sig = sigFor(hz, sig)
						rep.Fail(sig, "a document denoting an illegal partial update was accepted", "generated UnmarshalRestLiPatch / CheckField / missing_fields.go:enterMapScope", dd, nil)
					case !mustReject && doc.Class != "ok":
						rep.Fail(sigFor(hz, "patch:legal-document-rejected:"+what), "a document denoting a legal partial update was rejected", "generated UnmarshalRestLiPatch", dd, doc.Text)
					case !mustReject && !schema.sameAfterDecode(name, got, p):
						rep.Fail(sigFor(hz, "patch:roundtrip:"+what), "decoding the protocol's document of a legal partial update does not give the partial update back", "generated UnmarshalRestLiPatch", dd, nil)
					}
					return doc, got
				}
				doDec(nil, 1, text, "reference")
				if full {
					doDec([]string{"entities", "k1"}, 3, text, "batch")
				}
				// (3) what the client emitted has the protocol's shape and decodes back
				if oc.Class == "ok" && reason == "" && !carry {
					if !jsonSame(out, text) {
						rep.Fail(sigFor(hz, "patch:shape"), "the emitted partial update is not the protocol's patch / $set / $delete document of the struct", "generated MarshalRestLiPatch", cd, out)
					}
					if out != text {
						doDec(nil, 1, out, "emitted")
					}
				}
			}
		}
		// (4) CheckFields alone
		if full {
			var ts []touch
			schema.touches(name, p, 0, &ts)
			var keys []string
			for _, t := range ts {
				if r.Chance(20) {
					keys = append(keys, t.f.Name)
				}
			}
			ok, hd, hs, pn := schema.runCheckFields(name, p, keys)
			c.chk(keys, p, ok, hd, hs)
			rep.Evaluations++
			wantOK, wd, ws := true, false, false
			for _, t := range ts {
				cnt := 0
				for _, b := range []bool{t.d, t.s, t.nested != nil} {
					if b {
						cnt++
					}
				}
				if cnt > 1 {
					wantOK = false
				}
				for _, k := range keys {
					if cnt > 0 && k == t.f.Name {
						wantOK = false
					}
				}
				wd = wd || t.d
				ws = ws || t.s
			}
			kd := map[string]interface{}{"type": name, "patch": p.fixJSON(), "excluded_keys": keys, "ok": ok, "hasDeletes": hd, "hasSets": hs}
			if pn != nil {
				rep.Fail("patch:checkfields-panic", "CheckFields panicked", "generated CheckFields", kd, fmt.Sprint(pn))
			} else if ok != wantOK {
				rep.Fail("patch:checkfields-verdict", "CheckFields does not accept exactly the updates that touch each field at most once and no excluded field", "v2/restli/patch/partial_update_utils.go:CheckField", kd, nil)
			} else if ok && (hd != wd || hs != ws) {
				rep.Fail("patch:checkfields-flags", "HasDeletes / HasSets do not report the deletes / sets of the update", "v2/restli/patch/partial_update_utils.go:CheckField", kd, nil)
			}
		}
		nontrivial := reason != "" || len(ds) > 0
		rep.Distinct(name+"|"+strings.Join(ds, ",")+"|"+p.Coq(), nontrivial)
		rep.Count("type=" + name)
		rep.Count("legal=" + fmt.Sprint(reason == ""))
		if reason != "" {
			rep.Count("illegal:" + reason)
		}
		rep.Count("hazard=" + hz)
		if reason != "" {
			rep.Sample(c.describe())
		}
		sh.Add(c.coq(), c.describe())
	}

	// ---- exhaustive: Inner, Rec
	nestedFew := func(rec string) []*PVal {
		var out []*PVal
		out = append(out, schema.zeroPatch(rec))
		for k := 0; k < 2; k++ {
			out = append(out, schema.genPatch(r, rec, 0, 0, false))
		}
		out = append(out, schema.genPatch(r, rec, 0, 100, false))
		return out
	}
	nestedAll := func(rec string) []*PVal {
		return schema.enumPatches(r, rec, func(string) []*PVal { return []*PVal{schema.zeroPatch(rec), schema.genPatch(r, rec, 0, 0, false)} })
	}
	for _, name := range []string{"Inner", "Rec"} {
		nf := nestedFew
		if cfg.Thorough() {
			nf = nestedAll
		}
		ps := schema.enumPatches(r, name, nf)
		rep.Count(fmt.Sprintf("exhaustive:%s=%d", name, len(ps)))
		for si, ds := range patchSpecs[name] {
			if !cfg.Thorough() && si >= 5 {
				continue
			}
			for i, p := range ps {
				evalPatch(name, ds, p, i%4 == 0)
			}
		}
	}
	rep.Exhaustive = false
	// ---- seeded
	n := 14
	if cfg.Thorough() {
		n = 200
	}
	for _, name := range []string{"Opts", "Dflt", "Incl", "Incl2", "Big", "DOuter", "Prims", "Coll", "WithU", "Rec"} {
		for _, ds := range patchSpecs[name] {
			for i := 0; i < n; i++ {
				illegal := 0
				if i%3 == 1 {
					illegal = 25
				}
				p := schema.genPatch(r, name, 2, illegal, i%7 == 6)
				evalPatch(name, ds, p, i%2 == 0)
			}
		}
	}

	// ---- hand-written documents
	type hdoc struct {
		name   string
		ds     []string
		body   *Doc   // the value of "patch" (nil: use whole)
		whole  *Doc
		must   string // accept | reject
		expect *PVal  // for accept: the struct that must come out (nil = not compared)
		tag    string
	}
	str := func(s string) *Doc { return &Doc{Kind: "str", S: s} }
	arr := func(items ...*Doc) *Doc { return &Doc{Kind: "arr", Items: items} }
	obj := func(kv ...interface{}) *Doc {
		d := &Doc{Kind: "obj"}
		for i := 0; i < len(kv); i += 2 {
			d.Keys = append(d.Keys, kv[i].(string))
			d.Items = append(d.Items, kv[i+1].(*Doc))
		}
		return d
	}
	num := func(z int64) *Doc { return &Doc{Kind: "int", Z: z} }
	null := &Doc{Kind: "null"}
	var hds []hdoc
	for _, name := range []string{"Inner", "Rec", "Opts", "Dflt", "Incl", "Incl2", "Big", "DOuter"} {
		var ts []touch
		schema.touches(name, schema.zeroPatch(name), 0, &ts)
		zero := schema.zeroPatch(name)
		hds = append(hds,
			hdoc{name: name, body: obj("$delete", arr(str("nosuchfield"))), must: "accept", expect: zero, tag: "unknown-delete"},
			hdoc{name: name, body: obj("$set", obj("nosuchfield", num(1))), must: "accept", expect: zero, tag: "unknown-set"},
			hdoc{name: name, body: obj("nosuchfield", obj("$set", obj("a", num(1)))), must: "accept", expect: zero, tag: "unknown-nested"},
			hdoc{name: name, body: obj("$delete", str("x")), must: "reject", tag: "delete-not-array"},
			hdoc{name: name, body: obj("$delete", arr(num(1))), must: "reject", tag: "delete-item-not-string"},
			hdoc{name: name, body: obj("$delete", arr(null)), must: "reject", tag: "delete-item-null"},
			hdoc{name: name, body: obj("$set", arr()), must: "reject", tag: "set-not-object"},
			hdoc{name: name, body: obj("$set", null, "$delete", null), must: "accept", expect: zero, tag: "null-operators"},
			hdoc{name: name, body: arr(), must: "reject", tag: "patch-not-object"},
			hdoc{name: name, body: obj(), must: "accept", expect: zero, tag: "empty-patch"},
			hdoc{name: name, whole: obj(), must: "reject", tag: "no-patch"},
			hdoc{name: name, whole: obj("patch", null), must: "reject", tag: "null-patch"},
			hdoc{name: name, whole: obj("other", num(1), "patch", obj(), "more", arr(str("x"))), must: "accept", expect: zero, tag: "extra-keys"},
		)
		for _, t := range ts {
			if !isOptional(t.f) {
				tag := "required-delete"
				if t.incDepth > 1 {
					tag = "required-delete:transitive-include"
				}
				hds = append(hds, hdoc{name: name, body: obj("$delete", arr(str(t.f.Name))), must: "reject", tag: tag})
				hds = append(hds, hdoc{name: name, ds: []string{t.f.Name}, body: obj("$delete", arr(str(t.f.Name))), must: "reject", tag: tag + ":excluded"})
			} else {
				sv := schema.genSetValue(r, t.f.Type, false)
				tr := ""
				if t.incDepth > 1 {
					tr = ":transitive-include"
				}
				hds = append(hds, hdoc{name: name, body: obj("$delete", arr(str(t.f.Name)), "$set", obj(t.f.Name, schema.refEncode(t.f.Type, sv))), must: "reject", tag: "delete-and-set" + tr})
				hds = append(hds, hdoc{name: name, body: obj("$set", obj(t.f.Name, schema.refEncode(t.f.Type, sv)), "$delete", arr(str(t.f.Name), str(t.f.Name))), must: "reject", tag: "set-and-delete-twice" + tr})
				tg := "excluded-delete" + tr
				hds = append(hds, hdoc{name: name, ds: []string{t.f.Name}, body: obj("$delete", arr(str(t.f.Name))), must: "reject", tag: tg})
			}
			sv := schema.genSetValue(r, t.f.Type, false)
			hds = append(hds, hdoc{name: name, ds: []string{t.f.Name}, body: obj("$set", obj(t.f.Name, schema.refEncode(t.f.Type, sv))), must: "reject", tag: "excluded-set"})
			if rec := schema.recordOf(t.f.Type); rec != "" {
				tg := "excluded-nested"
				if t.incDepth > 0 {
					tg = "excluded-nested:inherited"
				}
				hds = append(hds, hdoc{name: name, ds: []string{t.f.Name}, body: obj(t.f.Name, obj()), must: "reject", tag: tg})
				hds = append(hds, hdoc{name: name, body: obj(t.f.Name, obj(), "$set", obj(t.f.Name, schema.refEncode(t.f.Type, sv))), must: "reject", tag: strings.Replace(tg, "excluded-nested", "set-and-nested", 1)})
			}
		}
	}
	for _, h := range hds {
		whole := h.whole
		if whole == nil {
			whole = obj("patch", h.body)
		}
		if !whole.jsonOK() {
			continue
		}
		text := whole.render(0, nil, false)
		spec := restlicodec.NewPathSpec(h.ds...)
		if len(h.ds) == 0 {
			spec = nil
		}
		c := newPCase(h.name, h.ds)
		for _, mode := range []struct {
			pre    []string
			ignore int
		}{{nil, 1}, {[]string{"entities", "k"}, 3}} {
			if mode.ignore == 3 && (h.tag == "no-patch" || h.tag == "null-patch") {
				continue // the missing "patch" is raised by the reader at the start of the input only
			}
			oc, got := schema.decodePatch(h.name, mode.pre, text, spec, mode.ignore)
			c.dec(mode.pre, mode.ignore, text, oc, got)
			rep.Evaluations++
			dd := map[string]interface{}{"type": h.name, "spec": h.ds, "document": text, "pre": mode.pre, "ignore": mode.ignore, "outcome": oc, "decoded": got.fixJSON(), "case": h.tag}
			switch {
			case oc.Class == "panic":
				rep.Fail("patch:decode-panic", "UnmarshalRestLi of a partial update panicked", "generated UnmarshalRestLiPatch", dd, oc.Text)
			case h.must == "reject" && oc.Class == "ok":
				rep.Fail(handSig(h.tag, "patch:hand-document-accepted:"+h.tag), "a document denoting an illegal partial update ("+h.tag+") was accepted", "generated UnmarshalRestLiPatch / UnmarshalDeleteField", dd, nil)
			case h.must == "accept" && oc.Class != "ok":
				rep.Fail("patch:hand-document-rejected:"+h.tag, "a legal partial-update document ("+h.tag+") was rejected", "generated UnmarshalRestLiPatch", dd, oc.Text)
			case h.must == "accept" && h.expect != nil && !pvEq(got, h.expect):
				rep.Fail("patch:hand-document-decoded:"+h.tag, "a legal partial-update document ("+h.tag+") decoded to the wrong struct", "generated UnmarshalRestLiPatch", dd, nil)
			}
		}
		rep.Distinct(h.name+"|hand|"+strings.Join(h.ds, ",")+"|"+text, true)
		rep.Count("hand:" + h.must)
		sh.Add(c.coq(), c.describe())
	}
	sh.Close()
	rep.Shards = sh.Files
	rep.Write(cfg.Out)
}
