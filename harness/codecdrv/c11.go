package main

import (
	"fmt"
	"reflect"

	"github.com/PapaCharlie/go-restli/v2/restlicodec"
	"verifgen/gen/fam"
	"verifgen/hx"
)

// C11: schema validity constraints on encode and on decode (unions, fixed, enums)
func runC11(cfg *hx.Config) {
	rep := hx.NewReport("values drawn with constraint violations allowed (every subset of union members set, enum constants 0, -1, n+1, 77) x 5 writers: encoding must fail iff the value is invalid; " +
		"documents that denote invalid values (union with 0 / 2 members / unknown alias, fixed of every length 0..7, unknown / case-changed / empty enum symbols) x JSON and ROR2 readers. " +
		"non-trivial = the value or document violates a constraint; distinct by (type, value or document)")
	sh := hx.NewShards(cfg.Out, header(), "CodecCorr", 60)
	r := hx.NewRand(cfg.Seed)
	n := 80
	if cfg.Thorough() {
		n = 2000
	}
	for _, tname := range []string{"U", "UN", "WithU", "Big", "Opts", "Color"} {
		t := ref(tname)
		for i := 0; i < n; i++ {
			v := schema.gen(r, t, genOpts{utf8: true, invalid: true, depth: 1 + r.Intn(2)})
			valid := schema.valid(t, v)
			c := newCase("c11", tname, schema.coqTy(t))
			ptr := reflect.New(registry[tname])
			schema.toGo(t, v, ptr.Elem())
			for f := range formats {
				out, oc := encode(ptr, f, nil)
				c.enc(f, v, oc, out)
				cd := map[string]interface{}{"type": tname, "format": formats[f], "value": v.fixJSON(), "outcome": oc, "out": out}
				switch {
				case oc.Class == "panic":
					rep.Fail("validity:encode-panic", "encoder panicked on an invalid value", "generated MarshalRestLi", cd, oc.Text)
				case !valid && oc.Class == "ok":
					rep.Fail("validity:invalid-emitted", "a value violating a schema constraint was emitted", "generated MarshalRestLi", cd, nil)
				case valid && oc.Class != "ok":
					rep.Fail("validity:valid-rejected", "a valid value was rejected by the encoder", "generated MarshalRestLi", cd, oc.Text)
				}
			}
			rep.Evaluations++
			rep.Distinct(tname+valKey(v), !valid)
			rep.Count(fmt.Sprintf("valid=%v", valid))
			if !valid {
				rep.Sample(c.describe())
			}
			sh.Add(c.coq(), c.describe())
		}
	}
	// invalid documents
	type docCase struct {
		tname string
		d     *Doc
		must  string // "error" | "enum0" | "ok"
	}
	var docs []docCase
	inner := &Doc{Kind: "obj", Keys: []string{"a"}, Items: []*Doc{{Kind: "int", Z: 1}}}
	for _, un := range []string{"U", "UN"} {
		docs = append(docs, docCase{un, &Doc{Kind: "obj"}, map[string]string{"U": "error", "UN": "ok"}[un]})
		docs = append(docs, docCase{un, &Doc{Kind: "obj", Keys: []string{"fam.Inner"}, Items: []*Doc{inner}}, "ok"})
		docs = append(docs, docCase{un, &Doc{Kind: "obj", Keys: []string{"bogus"}, Items: []*Doc{{Kind: "int", Z: 1}}}, "error"})
		docs = append(docs, docCase{un, &Doc{Kind: "obj", Keys: []string{"bogus"}, Items: []*Doc{inner}}, "error"})
		docs = append(docs, docCase{un, &Doc{Kind: "obj", Keys: []string{"fam.Inner", "fam.Inner"}, Items: []*Doc{inner, inner}}, "error"})
	}
	docs = append(docs, docCase{"U", &Doc{Kind: "obj", Keys: []string{"int", "string"}, Items: []*Doc{{Kind: "int", Z: 1}, {Kind: "str", S: "x"}}}, "error"})
	docs = append(docs, docCase{"U", &Doc{Kind: "obj", Keys: []string{"string", "int"}, Items: []*Doc{{Kind: "str", S: "x"}, {Kind: "int", Z: 1}}}, "error"})
	docs = append(docs, docCase{"UN", &Doc{Kind: "obj", Keys: []string{"long", "fam.Inner"}, Items: []*Doc{{Kind: "int", Z: 1}, inner}}, "error"})
	for l := 0; l <= 7; l++ {
		must := "error"
		if l == 4 {
			must = "ok"
		}
		for _, fill := range []string{"a", "\xff", "("} {
			s := ""
			for k := 0; k < l; k++ {
				s += fill
			}
			docs = append(docs, docCase{"Fx4", &Doc{Kind: "bytes", S: s}, must})
		}
	}
	for _, sym := range []string{"RED", "GREEN", "BLUE", "red", "Red", "", "PURPLE", "RED ", "$UNKNOWN$", "0", "1"} {
		must := "enum0"
		if sym == "RED" || sym == "GREEN" || sym == "BLUE" {
			must = "ok"
		}
		docs = append(docs, docCase{"Color", &Doc{Kind: "str", S: sym}, must})
	}
	for _, dc := range docs {
		c := newCase("c11", dc.tname, schema.coqTy(ref(dc.tname)))
		for _, f := range []int{0, 2, 4} {
			if dc.d.Kind == "str" && dc.d.S == "" && f >= 2 && dc.tname == "Color" {
				// '' is the empty string in ROR2: fine
			}
			text := dc.d.render(f, nil, false)
			oc, got := decodeVal(dc.tname, f, text, nil, 0)
			c.dec(f, text, oc, got)
			rep.Evaluations++
			rep.Distinct(dc.tname+formats[f]+text, dc.must != "ok")
			cd := map[string]interface{}{"type": dc.tname, "format": formats[f], "document": text, "outcome": oc, "decoded": got.fixJSON()}
			switch dc.must {
			case "error":
				if oc.Class == "ok" {
					rep.Fail("validity:invalid-document-accepted:"+dc.tname, "a document denoting an invalid value was accepted", "generated UnmarshalRestLi", cd, nil)
				}
			case "enum0":
				if oc.Class != "ok" || got.Z != 0 {
					rep.Fail("validity:unknown-enum-symbol", "an unknown enum symbol did not become the distinguished unknown value", "generated UnmarshalRestLi (enum)", cd, nil)
				}
			case "ok":
				if oc.Class != "ok" {
					rep.Fail("validity:valid-document-rejected:"+dc.tname, "a document denoting a valid value was rejected", "generated UnmarshalRestLi", cd, oc.Text)
				}
			}
			if oc.Class == "panic" {
				rep.Fail("validity:decode-panic", "decoder panicked", "generated UnmarshalRestLi", cd, oc.Text)
			}
		}
		sh.Add(c.coq(), c.describe())
	}
	// history: a known symbol, then an unknown one, decoded into the SAME receiver (bare enum, required enum field of a record,
	// optional enum field): the unknown symbol must become the distinguished unknown value, never keep the earlier symbol
	for _, f := range []int{0, 2} {
		q := func(s string) string {
			if f == 0 {
				return `"` + s + `"`
			}
			return s
		}
		rd := func(data string) restlicodec.Reader { r, _ := newReader(f, data, nil, 0); return r }
		var c fam.Color
		_ = c.UnmarshalRestLi(rd(q("GREEN")))
		err := c.UnmarshalRestLi(rd(q("PURPLE")))
		rep.Evaluations++
		if err != nil || int(c) != 0 {
			rep.Fail("validity:unknown-enum-symbol:reused-receiver", "an unknown enum symbol decoded into a receiver that held a symbol did not become the unknown value", "generated UnmarshalRestLi (enum)", map[string]interface{}{"format": formats[f], "first": "GREEN", "second": "PURPLE", "value": int(c)}, fmt.Sprint(err))
		}
		big := new(fam.Big)
		docs := map[int][2]string{0: {`{"p":{"i":1,"l":1,"f":1,"d":1,"b":true,"s":"","y":""},"e":"BLUE","fx":"abcd","tl":1}`, `{"p":{"i":1,"l":1,"f":1,"d":1,"b":true,"s":"","y":""},"e":"MAUVE","fx":"abcd","tl":1}`},
			2: {`(p:(i:1,l:1,f:1,d:1,b:true,s:'',y:''),e:BLUE,fx:abcd,tl:1)`, `(p:(i:1,l:1,f:1,d:1,b:true,s:'',y:''),e:MAUVE,fx:abcd,tl:1)`}}
		_ = big.UnmarshalRestLi(rd(docs[f][0]))
		err = big.UnmarshalRestLi(rd(docs[f][1]))
		rep.Evaluations++
		if err != nil || int(big.E) != 0 {
			rep.Fail("validity:unknown-enum-symbol:reused-receiver", "an unknown enum symbol decoded into a record whose enum field held a symbol did not become the unknown value", "generated UnmarshalRestLi (enum)", map[string]interface{}{"format": formats[f], "type": "Big.e", "value": int(big.E)}, fmt.Sprint(err))
		}
	}
	sh.Close()
	rep.Shards = sh.Files
	rep.Write(cfg.Out)
}
