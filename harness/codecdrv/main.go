// codecdrv: correspondence driver for the schema-quantified codec properties, compiled at check time against the
// bindings that the REAL generator just produced from the family manifest (verifgen/gen/fam).
package main

import (
	"encoding/json"
	"errors"
	"fmt"
	"net/url"
	"reflect"
	"regexp"
	"strings"

	"github.com/PapaCharlie/go-restli/v2/restlicodec"
	"verifgen/hx"
)

var formats = []string{"json", "pretty", "header", "path", "query"}

func newWriter(f int, excl restlicodec.PathSpec) restlicodec.Writer {
	switch f {
	case 0:
		return restlicodec.NewCompactJsonWriterWithExcludedFields(excl)
	case 1:
		return restlicodec.NewPrettyJsonWriterWithExcludedFields(excl)
	case 2:
		return restlicodec.NewRor2HeaderWriterWithExcludedFields(excl)
	case 3:
		return restlicodec.NewRor2PathWriter()
	default:
		return restlicodec.NewRestLiQueryParamsWriter()
	}
}

func newReader(f int, data string, excl restlicodec.PathSpec, ignore int) (restlicodec.Reader, error) {
	switch f {
	case 0, 1:
		return restlicodec.NewJsonReaderWithExcludedFields([]byte(data), excl, ignore)
	case 2, 3:
		return restlicodec.NewRor2ReaderWithExcludedFields(data, excl, ignore)
	default:
		qp, err := restlicodec.ParseQueryParams("p=" + data)
		if err != nil {
			return nil, err
		}
		r, ok := qp["p"]
		if !ok {
			return nil, errors.New("no param")
		}
		return r, nil
	}
}

type outcome struct {
	Class  string   `json:"class"` // ok err missing excluded panic
	Fields []string `json:"fields,omitempty"`
	Text   string   `json:"text,omitempty"`
}

func classify(err error, panicked interface{}) outcome {
	if panicked != nil {
		return outcome{Class: "panic", Text: fmt.Sprint(panicked)}
	}
	if err == nil {
		return outcome{Class: "ok"}
	}
	var m *restlicodec.MissingRequiredFieldsError
	if errors.As(err, &m) {
		return outcome{Class: "missing", Fields: m.Fields, Text: err.Error()}
	}
	var x restlicodec.ExcludedFieldError
	if errors.As(err, &x) {
		return outcome{Class: "excluded", Text: err.Error()}
	}
	return outcome{Class: "err", Text: err.Error()}
}

func coqClass(c string) string {
	switch c {
	case "ok":
		return "COk"
	case "err":
		return "CErr"
	case "missing":
		return "CMissing"
	case "excluded":
		return "CExcluded"
	}
	return "CPanic"
}

// encode a generated value (pointer to T) with writer f
func encode(ptr reflect.Value, f int, excl restlicodec.PathSpec) (out string, oc outcome) {
	var err error
	var p interface{}
	func() {
		defer func() { p = recover() }()
		w := newWriter(f, excl)
		err = ptr.Interface().(restlicodec.Marshaler).MarshalRestLi(w)
		if err == nil {
			out = w.Finalize()
		}
	}()
	return out, classify(err, p)
}

func decode(T reflect.Type, f int, data string, excl restlicodec.PathSpec, ignore int) (ptr reflect.Value, oc outcome) {
	var err error
	var p interface{}
	func() {
		defer func() { p = recover() }()
		if f == 4 {
			// the query-parameter reader: one parameter "p" holding the value, decoded through QueryParamsReader.ReadRecord
			var qp restlicodec.QueryParamsReader
			qp, err = restlicodec.ParseQueryParams("p=" + data)
			if err != nil {
				return
			}
			ptr = reflect.New(T)
			err = qp.ReadRecord(restlicodec.NewRequiredFields().Add("p"), func(rd restlicodec.Reader, field string) error {
				return ptr.Interface().(restlicodec.Unmarshaler).UnmarshalRestLi(rd)
			})
			return
		}
		var rd restlicodec.Reader
		rd, err = newReader(f, data, excl, ignore)
		if err != nil {
			return
		}
		ptr = reflect.New(T)
		err = ptr.Interface().(restlicodec.Unmarshaler).UnmarshalRestLi(rd)
	}()
	return ptr, classify(err, p)
}

func callEquals(a, b reflect.Value) (eq bool, ok bool) {
	defer func() {
		if recover() != nil {
			ok = false
		}
	}()
	m := a.MethodByName("Equals")
	if !m.IsValid() {
		return false, false
	}
	// Equals takes either *T or T
	arg := b
	if m.Type().In(0).Kind() != reflect.Ptr {
		arg = b.Elem()
	}
	res := m.Call([]reflect.Value{arg})
	return res[0].Bool(), true
}


// ---- a case for the Coq model: a type, tables, and a list of observed operations
type opDesc struct {
	Op      string  `json:"op"` // enc | dec
	Format  string  `json:"format"`
	Value   *Val    `json:"value,omitempty"`
	Data    string  `json:"data,omitempty"`
	Outcome outcome `json:"outcome"`
	Decoded *Val    `json:"decoded,omitempty"`
}
type caseDesc struct {
	Mode  string   `json:"mode"`
	Type  string   `json:"type"`
	Excl  []string `json:"excl,omitempty"`
	Ign   int      `json:"ignore,omitempty"`
	Note  string   `json:"note,omitempty"`
	// what happened in the SAME process immediately before the operations of this case (C01 histories: failed encodes of
	// unrelated values; encode / decode must be functions of their argument alone)
	History []histStep `json:"history,omitempty"`
	Ops   []opDesc `json:"ops"`
}

// one earlier step of a history: an operation on some other value whose outcome is not part of the case's claim
type histStep struct {
	Op      string  `json:"op"` // enc | dec
	Type    string  `json:"type"`
	Format  string  `json:"format"`
	Value   *Val    `json:"value,omitempty"`
	Data    string  `json:"data,omitempty"`
	Outcome outcome `json:"outcome"`
}
type cb struct {
	ty     string // Coq type term
	fl     []floatEnt
	texts  []string
	ops    []string
	desc   caseDesc
}

func newCase(mode, tname, coqTy string) *cb {
	return &cb{ty: coqTy, desc: caseDesc{Mode: mode, Type: tname}, texts: append([]string{}, baseTexts...)}
}
func (c *cb) addVal(v *Val) {
	var fl []floatEnt
	v.floats(&fl)
	c.fl = append(c.fl, fl...)
	for _, f := range fl {
		c.texts = append(c.texts, f.text)
	}
}
func (c *cb) enc(f int, v *Val, oc outcome, out string) {
	c.addVal(v)
	c.ops = append(c.ops, "OEnc "+fmt.Sprint(f)+" "+v.Coq()+" "+coqOutcomeEnc(oc, out))
	c.desc.Ops = append(c.desc.Ops, opDesc{Op: "enc", Format: formats[f], Value: v, Data: out, Outcome: oc})
}
func (c *cb) dec(f int, data string, oc outcome, decoded *Val) {
	c.texts = append(c.texts, candidateTexts(data, f)...)
	c.ops = append(c.ops, "ODec "+fmt.Sprint(f)+" "+hx.CoqBytes(data)+" "+coqOutcomeDec(oc, decoded))
	c.desc.Ops = append(c.desc.Ops, opDesc{Op: "dec", Format: formats[f], Data: data, Outcome: oc, Decoded: decoded})
}
func (c *cb) coq() string {
	return "{| c_ty := " + c.ty + "; c_floats := " + coqFloats(c.fl) + "; c_parse := " + coqParseTable(c.texts) +
		"; c_excl := " + hx.CoqBytesList(c.desc.Excl) + "; c_ignore := " + fmt.Sprint(c.desc.Ign) + "; c_ops := [" + strings.Join(c.ops, ";\n  ") + "] |}"
}
func (c *cb) describe() caseDesc {
	for i := range c.desc.Ops {
		c.desc.Ops[i].Value.fixJSON()
		c.desc.Ops[i].Decoded.fixJSON()
	}
	return c.desc
}

// every text a reader might hand to strconv.ParseFloat while decoding data
func candidateTexts(data string, f int) []string {
	var out []string
	if f <= 1 {
		re := regexp.MustCompile(`-?[0-9]+(\.[0-9]+)?([eE][+-]?[0-9]+)?`)
		out = append(out, re.FindAllString(data, -1)...)
		var any interface{}
		dec := json.NewDecoder(strings.NewReader(data))
		dec.UseNumber()
		if dec.Decode(&any) == nil {
			var walk func(x interface{})
			walk = func(x interface{}) {
				switch y := x.(type) {
				case string:
					out = append(out, y)
				case json.Number:
					out = append(out, string(y))
				case []interface{}:
					for _, z := range y {
						walk(z)
					}
				case map[string]interface{}:
					for _, z := range y {
						walk(z)
					}
				}
			}
			walk(any)
		}
		return out
	}
	toks := strings.FieldsFunc(data, func(r rune) bool { return r == '(' || r == ')' || r == ',' || r == ':' })
	toks = append(toks, data)
	for _, t := range toks {
		if len(t) > 64 {
			continue
		}
		if d, err := url.PathUnescape(t); err == nil {
			out = append(out, d)
		}
		if d, err := url.QueryUnescape(t); err == nil {
			out = append(out, d)
		}
	}
	return out
}

func header() string {
	return "From Coq Require Import List ZArith NArith. Import ListNotations.\nFrom Coq.Strings Require Import Byte.\n" +
		"From GR Require Import Base.Bytes Base.Res Codec.Schema Codec.Doc Gen.FamEnv Corr.CodecCorr.\n"
}

func coqOutcomeEnc(oc outcome, bytes string) string {
	if oc.Class == "ok" {
		return "(EncOk " + hx.CoqBytes(bytes) + ")"
	}
	return "(EncFail " + coqClass(oc.Class) + ")"
}
func coqOutcomeDec(oc outcome, v *Val) string {
	if oc.Class == "ok" && v != nil {
		return "(DecOk " + v.Coq() + ")"
	}
	if oc.Class == "missing" && v != nil {
		return "(DecMissing " + hx.CoqBytesList(oc.Fields) + " " + v.Coq() + ")"
	}
	return "(DecFail " + coqClass(oc.Class) + ")"
}

func minInt(a, b int) int {
	if a < b {
		return a
	}
	return b
}

func nontrivial(v *Val) bool {
	var ss []string
	v.strings(&ss)
	for _, s := range ss {
		for i := 0; i < len(s); i++ {
			c := s[i]
			if !(c == '_' || (c >= '0' && c <= '9') || (c >= 'a' && c <= 'z') || (c >= 'A' && c <= 'Z')) {
				return true
			}
		}
	}
	var fs []floatEnt
	v.floats(&fs)
	return len(fs) > 0
}

func valKey(v *Val) string {
	b, _ := json.Marshal(v.fixJSON())
	return string(b)
}

// decode data as type tname with reader f and convert the result
func decodeVal(tname string, f int, data string, excl restlicodec.PathSpec, ignore int) (outcome, *Val) {
	back, oc := decode(registry[tname], f, data, excl, ignore)
	if oc.Class == "ok" || oc.Class == "missing" {
		return oc, schema.fromGo(ref(tname), back.Elem())
	}
	return oc, nil
}
