// codecdrv: correspondence driver for the schema-quantified codec properties, compiled at check time against the
// bindings that the REAL generator just produced from the family manifest (verifgen/gen/fam).
package main

import (
	"encoding/json"
	"errors"
	"fmt"
	"os"
	"reflect"
	"regexp"
	"sort"
	"strings"
	"unicode/utf8"

	"github.com/PapaCharlie/go-restli/v2/restlicodec"
	"verifgen/hx"
)

var formats = []string{"json", "pretty", "header", "path", "query"}

func newWriter(f int, excl restlicodec.PathSpec) restlicodec.Writer {
	switch f {
	case 0:
		return restlicodec.NewCompactJsonWriterWithExcludedFields(excl)
	case 1:
		return restlicodec.NewPrettyJsonWriterWithExcludedFields(excl)
	case 2:
		return restlicodec.NewRor2HeaderWriterWithExcludedFields(excl)
	case 3:
		return restlicodec.NewRor2PathWriter()
	default:
		return restlicodec.NewRestLiQueryParamsWriter()
	}
}

func newReader(f int, data string, excl restlicodec.PathSpec, ignore int) (restlicodec.Reader, error) {
	switch f {
	case 0, 1:
		return restlicodec.NewJsonReaderWithExcludedFields([]byte(data), excl, ignore)
	case 2, 3:
		return restlicodec.NewRor2ReaderWithExcludedFields(data, excl, ignore)
	default:
		qp, err := restlicodec.ParseQueryParams("p=" + data)
		if err != nil {
			return nil, err
		}
		r, ok := qp["p"]
		if !ok {
			return nil, errors.New("no param")
		}
		return r, nil
	}
}

type outcome struct {
	Class  string   `json:"class"` // ok err missing excluded panic
	Fields []string `json:"fields,omitempty"`
	Text   string   `json:"text,omitempty"`
}

func classify(err error, panicked interface{}) outcome {
	if panicked != nil {
		return outcome{Class: "panic", Text: fmt.Sprint(panicked)}
	}
	if err == nil {
		return outcome{Class: "ok"}
	}
	var m *restlicodec.MissingRequiredFieldsError
	if errors.As(err, &m) {
		return outcome{Class: "missing", Fields: m.Fields, Text: err.Error()}
	}
	var x restlicodec.ExcludedFieldError
	if errors.As(err, &x) {
		return outcome{Class: "excluded", Text: err.Error()}
	}
	return outcome{Class: "err", Text: err.Error()}
}

func coqClass(c string) string {
	switch c {
	case "ok":
		return "COk"
	case "err":
		return "CErr"
	case "missing":
		return "CMissing"
	case "excluded":
		return "CExcluded"
	}
	return "CPanic"
}

// encode a generated value (pointer to T) with writer f
func encode(ptr reflect.Value, f int, excl restlicodec.PathSpec) (out string, oc outcome) {
	var err error
	var p interface{}
	func() {
		defer func() { p = recover() }()
		w := newWriter(f, excl)
		err = ptr.Interface().(restlicodec.Marshaler).MarshalRestLi(w)
		if err == nil {
			out = w.Finalize()
		}
	}()
	return out, classify(err, p)
}

func decode(T reflect.Type, f int, data string, excl restlicodec.PathSpec, ignore int) (ptr reflect.Value, oc outcome) {
	var err error
	var p interface{}
	func() {
		defer func() { p = recover() }()
		var rd restlicodec.Reader
		rd, err = newReader(f, data, excl, ignore)
		if err != nil {
			return
		}
		ptr = reflect.New(T)
		err = ptr.Interface().(restlicodec.Unmarshaler).UnmarshalRestLi(rd)
	}()
	return ptr, classify(err, p)
}

func callEquals(a, b reflect.Value) (eq bool, ok bool) {
	defer func() {
		if recover() != nil {
			ok = false
		}
	}()
	m := a.MethodByName("Equals")
	if !m.IsValid() {
		return false, false
	}
	// Equals takes either *T or T
	arg := b
	if m.Type().In(0).Kind() != reflect.Ptr {
		arg = b.Elem()
	}
	res := m.Call([]reflect.Value{arg})
	return res[0].Bool(), true
}

type caseDesc struct {
	Mode    string      `json:"mode"`
	Type    string      `json:"type"`
	Value   *Val        `json:"value"`
	Excl    []string    `json:"excl,omitempty"`
	Formats []fmtResult `json:"formats"`
	Note    string      `json:"note,omitempty"`
}
type fmtResult struct {
	Format  string  `json:"format"`
	Enc     outcome `json:"enc"`
	Bytes   string  `json:"bytes,omitempty"`
	Dec     outcome `json:"dec"`
	Decoded *Val    `json:"decoded,omitempty"`
}

var schema *Schema

// float texts every case may meet: the reserved strings and the numbers of the schema's default literals
var baseTexts = []string{"NaN", "Infinity", "-Infinity"}

func collectDefaultNumbers() {
	re := regexp.MustCompile(`-?[0-9]+(\.[0-9]+)?([eE][+-]?[0-9]+)?`)
	for _, n := range schema.Types {
		for _, f := range n.Fields {
			if f.DefaultValue != nil {
				baseTexts = append(baseTexts, re.FindAllString(*f.DefaultValue, -1)...)
			}
		}
	}
	sort.Strings(baseTexts)
}

func allValidUtf8(v *Val) bool {
	var ss []string
	v.strings(&ss)
	for _, s := range ss {
		if !utf8.ValidString(s) {
			return false
		}
	}
	return true
}

func main() {
	cfg := hx.ParseFlags()
	schema = loadSchema(os.Getenv("VERIF_SCHEMA"))
	collectDefaultNumbers()
	mode := os.Getenv("VERIF_MODE")
	switch mode {
	case "c01":
		runC01(cfg)
	default:
		fmt.Fprintln(os.Stderr, "unknown VERIF_MODE", mode)
		os.Exit(2)
	}
}

func header() string {
	return "From Coq Require Import List ZArith NArith. Import ListNotations.\nFrom Coq.Strings Require Import Byte.\n" +
		"From GR Require Import Base.Bytes Base.Res Codec.Schema Codec.Doc Gen.FamEnv Corr.CodecCorr.\n"
}

func coqOutcomeEnc(oc outcome, bytes string) string {
	if oc.Class == "ok" {
		return "(EncOk " + hx.CoqBytes(bytes) + ")"
	}
	return "(EncFail " + coqClass(oc.Class) + ")"
}
func coqOutcomeDec(oc outcome, v *Val) string {
	if oc.Class == "ok" && v != nil {
		return "(DecOk " + v.Coq() + ")"
	}
	if oc.Class == "missing" && v != nil {
		return "(DecMissing " + hx.CoqBytesList(oc.Fields) + " " + v.Coq() + ")"
	}
	return "(DecFail " + coqClass(oc.Class) + ")"
}

func runC01(cfg *hx.Config) {
	rep := hx.NewReport("schema family (17 named types through the REAL generator) x seeded values (sizes 0-3 per container, depth <= 3, byte pool weighted " +
		"towards every ROR2/JSON/URL metacharacter, control bytes, 0x80-0xFF, multi-byte UTF-8, U+2028, empty strings/containers, int extremes, float " +
		"specials and both sides of the 1e21/1e-7 switches) plus a single-byte sweep (each of the 256 bytes as string value, map key, bytes value) x 5 wire formats. " +
		"non-trivial = the value holds a string/key/bytes with a byte outside [A-Za-z0-9_] or a float or a nested container; distinct by (type, value)")
	sh := hx.NewShards(cfg.Out, header(), "CodecCorr", 120)
	r := hx.NewRand(cfg.Seed)
	n := 120
	if cfg.Thorough() {
		n = 2500
	}
	emit := func(tname string, v *Val, note string) {
		runRoundTrip(tname, v, note, rep, sh)
	}
	for _, tname := range schema.Top {
		for i := 0; i < n; i++ {
			o := genOpts{utf8: r.Chance(85), depth: 1 + r.Intn(3)}
			emit(tname, schema.gen(r, ref(tname), o), "")
		}
	}
	// single-byte sweep
	for b := 0; b < 256; b++ {
		s := string([]byte{byte(b)})
		// Prims.s / Prims.y, Coll.m key+value, Coll.arr
		prims := &Val{K: "rec", Fields: []*Val{{K: "int", Z: 1}, {K: "long", Z: 2}, {K: "float", Bits: 0}, {K: "double", Bits: 0}, {K: "bool", B: true}, {K: "str", S: s}, {K: "bytes", S: s}}}
		emit("Prims", prims, "sweep")
		coll := &Val{K: "rec", Fields: []*Val{
			{K: "arr", Items: []*Val{{K: "str", S: s}, {K: "str", S: "x" + s + "y"}}},
			{K: "map", Keys: []string{s, "k" + s}, Items: []*Val{{K: "str", S: s}, {K: "str", S: ""}}},
			{K: "map", Keys: []string{s}, Items: []*Val{{K: "arr", Items: []*Val{{K: "rec", Fields: []*Val{{K: "int", Z: 7}, {K: "str", S: s}}}}}}},
			{K: "arr", Items: []*Val{{K: "map", Keys: []string{s}, Items: []*Val{{K: "long", Z: -5}}}}},
			{K: "arr", Items: []*Val{{K: "bytes", S: s}}},
			nil}}
		emit("Coll", coll, "sweep")
		u := &Val{K: "union", Fields: []*Val{nil, {K: "str", S: s}, nil, nil, nil}}
		emit("U", u, "sweep")
	}
	sh.Close()
	rep.Shards = sh.Files
	rep.Write(cfg.Out)
}

func nontrivial(v *Val) bool {
	var ss []string
	v.strings(&ss)
	for _, s := range ss {
		for i := 0; i < len(s); i++ {
			c := s[i]
			if !(c == '_' || (c >= '0' && c <= '9') || (c >= 'a' && c <= 'z') || (c >= 'A' && c <= 'Z')) {
				return true
			}
		}
	}
	var fs []floatEnt
	v.floats(&fs)
	return len(fs) > 0
}

func runRoundTrip(tname string, v *Val, note string, rep *hx.Report, sh *hx.Shards) {
	T := registry[tname]
	t := ref(tname)
	d := caseDesc{Mode: "c01", Type: tname, Value: v, Note: note}
	ptr := reflect.New(T)
	schema.toGo(t, v, ptr.Elem())
	utf8ok := allValidUtf8(v)
	valid := schema.valid(t, v)
	var fl []floatEnt
	v.floats(&fl)
	var obs []string
	for f := range formats {
		fr := fmtResult{Format: formats[f]}
		out, oc := encode(ptr, f, nil)
		fr.Enc, fr.Bytes = oc, out
		var decodedVal *Val
		if oc.Class == "ok" {
			back, doc := decode(T, f, out, nil, 0)
			fr.Dec = doc
			if doc.Class == "ok" || doc.Class == "missing" {
				decodedVal = schema.fromGo(t, back.Elem())
				fr.Decoded = decodedVal
			}
			// ---- property oracle (C01), evaluated on the implementation alone
			if valid && (f >= 2 || utf8ok) {
				site := "v2/restlicodec " + formats[f]
				if doc.Class != "ok" {
					rep.Fail(sigRoundTrip(f, v, "decode-"+doc.Class), "decoding the encoder's output fails", site, d.withFormat(fr), doc.Text)
				} else {
					want := schema.fillDefaults(t, v)
					if !valEq(decodedVal, want) && valEq(decodedVal, schema.fillDefaultsAsGenerated(t, v)) {
						rep.Fail("roundtrip:included-record-defaults-not-filled", "defaults declared in an included record are not filled when the including record is decoded",
							"v2/codegen/types/record_unmarshaler.go:generateUnmarshaler", d.withFormat(fr), nil)
					} else if !valEq(decodedVal, want) {
						rep.Fail(sigRoundTrip(f, v, "value-differs"), "decode(encode(v)) differs from v", site, d.withFormat(fr), nil)
					} else if !v.hasNaN() {
						wantPtr := reflect.New(T)
						schema.toGo(t, want, wantPtr.Elem())
						if eq, ok := callEquals(back, wantPtr); ok && !eq {
							rep.Fail(sigRoundTrip(f, v, "equals-false"), "the type's Equals rejects decode(encode(v))", site, d.withFormat(fr), nil)
						}
					}
				}
			}
		} else if oc.Class == "panic" {
			rep.Fail("encode-panic:"+formats[f], "encoder panicked", "v2/restlicodec "+formats[f], d.withFormat(fr), oc.Text)
		} else if valid {
			rep.Fail("encode-error-on-valid:"+formats[f], "a valid value is rejected by the encoder", "v2/restlicodec "+formats[f], d.withFormat(fr), oc.Text)
		}
		d.Formats = append(d.Formats, fr)
		obs = append(obs, "("+coqOutcomeEnc(fr.Enc, fr.Bytes)+", "+coqOutcomeDec(fr.Dec, decodedVal)+")")
	}
	rep.Evaluations++
	key, _ := json.Marshal(v.fixJSON())
	rep.Distinct(tname+string(key), nontrivial(v))
	rep.Count("type=" + tname)
	rep.Count(fmt.Sprintf("utf8=%v", utf8ok))
	rep.Count(fmt.Sprintf("floats=%d", minInt(len(fl), 3)))
	if note == "" && nontrivial(v) {
		rep.Sample(d)
	}
	texts := append([]string{}, baseTexts...)
	for _, f := range fl {
		texts = append(texts, f.text)
	}
	sh.Add("{| c_ty := "+schema.coqTy(t)+"; c_val := "+v.Coq()+"; c_floats := "+coqFloats(fl)+"; c_parse := "+coqParseTable(texts)+"; c_excl := []; c_ignore := 0; c_obs := ["+strings.Join(obs, ";")+"] |}", d)
}

func (d caseDesc) withFormat(fr fmtResult) caseDesc {
	d.Formats = []fmtResult{fr}
	d.Value.fixJSON()
	if fr.Decoded != nil {
		fr.Decoded.fixJSON()
	}
	return d
}

func minInt(a, b int) int {
	if a < b {
		return a
	}
	return b
}

// signature of a round-trip failure: format family + what kind of content is involved (narrow, stable)
func sigRoundTrip(f int, v *Val, what string) string {
	fam := "json"
	if f >= 2 {
		fam = "ror2-" + formats[f]
	}
	return "roundtrip:" + fam + ":" + what
}
