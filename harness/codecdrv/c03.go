package main

import (
	"encoding/json"
	"fmt"
	"io"
	"math"
	"os"
	"reflect"
	"regexp"
	"strconv"
	"strings"
	"unicode/utf8"

	"github.com/PapaCharlie/go-restli/v2/restlicodec"

	"verifgen/hx"
)

// C03: wire-format conformance against an independent Rest.li 2.0 oracle.
//
// Everything in this file that judges a document is written from the protocol's wire rules and shares no code with the
// library: two strict JSON parsers (encoding/json token walk + a hand-written RFC 8259 parser, which must agree), a
// reference ROR2 parser written from the grammar, the per-context raw-byte rule, and the comparison of the parsed tree
// with the reference tree of the abstract value (refdoc.go's refEncode + the null rule for member-less nullable unions).

// ------------------------------------------------------------------------------------------------ strict JSON, parser 1+2

type jnode struct {
	Kind  string // obj arr str num bool null
	S     string // string value / number text
	B     bool
	Keys  []string
	Items []*jnode
}

// strictJSON: the text must be valid UTF-8, one RFC 8259 value surrounded by nothing but whitespace, without duplicate
// member names, accepted by BOTH parsers with the same tree. what = "" when accepted.
func strictJSON(text string) (n *jnode, what string) {
	if !utf8.ValidString(text) {
		return nil, "not-utf8"
	}
	if !json.Valid([]byte(text)) {
		return nil, "not-strict-json"
	}
	dec := json.NewDecoder(strings.NewReader(text))
	dec.UseNumber()
	n, what = tokValue(dec, nil)
	if what != "" {
		return nil, what
	}
	if _, err := dec.Token(); err != io.EOF {
		return nil, "trailing-data"
	}
	p := &rfcParser{s: text}
	p.ws()
	m := p.value(0)
	p.ws()
	if p.err == "" && p.i != len(p.s) {
		p.err = "trailing-data"
	}
	if p.err != "" {
		return nil, p.err
	}
	if !jnodeEq(n, m) {
		return nil, "strict-parsers-disagree"
	}
	return n, ""
}

func tokValue(dec *json.Decoder, tok json.Token) (*jnode, string) {
	if tok == nil {
		var err error
		tok, err = dec.Token()
		if err != nil {
			return nil, "not-strict-json"
		}
	}
	switch x := tok.(type) {
	case json.Delim:
		switch x {
		case '{':
			n := &jnode{Kind: "obj"}
			seen := map[string]bool{}
			for dec.More() {
				kt, err := dec.Token()
				if err != nil {
					return nil, "not-strict-json"
				}
				k, ok := kt.(string)
				if !ok {
					return nil, "not-strict-json"
				}
				if seen[k] {
					return nil, "duplicate-key"
				}
				seen[k] = true
				v, what := tokValue(dec, nil)
				if what != "" {
					return nil, what
				}
				n.Keys = append(n.Keys, k)
				n.Items = append(n.Items, v)
			}
			if end, err := dec.Token(); err != nil || end != json.Delim('}') {
				return nil, "not-strict-json"
			}
			return n, ""
		case '[':
			n := &jnode{Kind: "arr"}
			for dec.More() {
				v, what := tokValue(dec, nil)
				if what != "" {
					return nil, what
				}
				n.Items = append(n.Items, v)
			}
			if end, err := dec.Token(); err != nil || end != json.Delim(']') {
				return nil, "not-strict-json"
			}
			return n, ""
		}
		return nil, "not-strict-json"
	case string:
		return &jnode{Kind: "str", S: x}, ""
	case json.Number:
		return &jnode{Kind: "num", S: string(x)}, ""
	case bool:
		return &jnode{Kind: "bool", B: x}, ""
	case nil:
		return &jnode{Kind: "null"}, ""
	}
	return nil, "not-strict-json"
}

// hand-written RFC 8259 parser (no leniency: no raw control characters, no lone surrogates, no leading zeros)
type rfcParser struct {
	s   string
	i   int
	err string
}

func (p *rfcParser) ws() {
	for p.i < len(p.s) && (p.s[p.i] == ' ' || p.s[p.i] == '\t' || p.s[p.i] == '\n' || p.s[p.i] == '\r') {
		p.i++
	}
}
func (p *rfcParser) fail(what string) *jnode {
	if p.err == "" {
		p.err = what
	}
	return nil
}
func (p *rfcParser) lit(l string) bool {
	if strings.HasPrefix(p.s[p.i:], l) {
		p.i += len(l)
		return true
	}
	return false
}

var rfcNumber = regexp.MustCompile(`^-?(0|[1-9][0-9]*)(\.[0-9]+)?([eE][+-]?[0-9]+)?`)

func (p *rfcParser) value(depth int) *jnode {
	if p.err != "" || depth > 200 || p.i >= len(p.s) {
		return p.fail("not-strict-json")
	}
	switch c := p.s[p.i]; {
	case c == '{':
		p.i++
		n := &jnode{Kind: "obj"}
		seen := map[string]bool{}
		p.ws()
		if p.i < len(p.s) && p.s[p.i] == '}' {
			p.i++
			return n
		}
		for {
			p.ws()
			if p.i >= len(p.s) || p.s[p.i] != '"' {
				return p.fail("not-strict-json")
			}
			k, ok := p.str()
			if !ok {
				return nil
			}
			if seen[k] {
				return p.fail("duplicate-key")
			}
			seen[k] = true
			p.ws()
			if p.i >= len(p.s) || p.s[p.i] != ':' {
				return p.fail("not-strict-json")
			}
			p.i++
			p.ws()
			v := p.value(depth + 1)
			if p.err != "" {
				return nil
			}
			n.Keys = append(n.Keys, k)
			n.Items = append(n.Items, v)
			p.ws()
			if p.i < len(p.s) && p.s[p.i] == ',' {
				p.i++
				continue
			}
			if p.i < len(p.s) && p.s[p.i] == '}' {
				p.i++
				return n
			}
			return p.fail("not-strict-json")
		}
	case c == '[':
		p.i++
		n := &jnode{Kind: "arr"}
		p.ws()
		if p.i < len(p.s) && p.s[p.i] == ']' {
			p.i++
			return n
		}
		for {
			p.ws()
			v := p.value(depth + 1)
			if p.err != "" {
				return nil
			}
			n.Items = append(n.Items, v)
			p.ws()
			if p.i < len(p.s) && p.s[p.i] == ',' {
				p.i++
				continue
			}
			if p.i < len(p.s) && p.s[p.i] == ']' {
				p.i++
				return n
			}
			return p.fail("not-strict-json")
		}
	case c == '"':
		s, ok := p.str()
		if !ok {
			return nil
		}
		return &jnode{Kind: "str", S: s}
	case c == 't':
		if p.lit("true") {
			return &jnode{Kind: "bool", B: true}
		}
	case c == 'f':
		if p.lit("false") {
			return &jnode{Kind: "bool", B: false}
		}
	case c == 'n':
		if p.lit("null") {
			return &jnode{Kind: "null"}
		}
	case c == '-' || (c >= '0' && c <= '9'):
		m := rfcNumber.FindString(p.s[p.i:])
		if m == "" {
			return p.fail("not-strict-json")
		}
		p.i += len(m)
		return &jnode{Kind: "num", S: m}
	}
	return p.fail("not-strict-json")
}

func hex4(s string) (rune, bool) {
	if len(s) < 4 {
		return 0, false
	}
	var r rune
	for i := 0; i < 4; i++ {
		h, ok := hexVal(s[i])
		if !ok {
			return 0, false
		}
		r = r<<4 | rune(h)
	}
	return r, true
}

func hexVal(c byte) (int, bool) {
	switch {
	case c >= '0' && c <= '9':
		return int(c - '0'), true
	case c >= 'a' && c <= 'f':
		return int(c-'a') + 10, true
	case c >= 'A' && c <= 'F':
		return int(c-'A') + 10, true
	}
	return 0, false
}

func (p *rfcParser) str() (string, bool) {
	p.i++ // opening quote
	var sb strings.Builder
	for {
		if p.i >= len(p.s) {
			p.fail("not-strict-json")
			return "", false
		}
		c := p.s[p.i]
		switch {
		case c == '"':
			p.i++
			return sb.String(), true
		case c < 0x20:
			p.fail("raw-control-character-in-string")
			return "", false
		case c == '\\':
			if p.i+1 >= len(p.s) {
				p.fail("not-strict-json")
				return "", false
			}
			e := p.s[p.i+1]
			p.i += 2
			switch e {
			case '"', '\\', '/':
				sb.WriteByte(e)
			case 'b':
				sb.WriteByte('\b')
			case 'f':
				sb.WriteByte('\f')
			case 'n':
				sb.WriteByte('\n')
			case 'r':
				sb.WriteByte('\r')
			case 't':
				sb.WriteByte('\t')
			case 'u':
				r, ok := hex4(p.s[p.i:])
				if !ok {
					p.fail("not-strict-json")
					return "", false
				}
				p.i += 4
				switch {
				case r >= 0xD800 && r < 0xDC00:
					if !strings.HasPrefix(p.s[p.i:], `\u`) {
						p.fail("lone-surrogate")
						return "", false
					}
					lo, ok := hex4(p.s[p.i+2:])
					if !ok || lo < 0xDC00 || lo > 0xDFFF {
						p.fail("lone-surrogate")
						return "", false
					}
					p.i += 6
					sb.WriteRune(0x10000 + (r-0xD800)<<10 + (lo - 0xDC00))
				case r >= 0xDC00 && r <= 0xDFFF:
					p.fail("lone-surrogate")
					return "", false
				default:
					sb.WriteRune(r)
				}
			default:
				p.fail("not-strict-json")
				return "", false
			}
		default:
			sb.WriteByte(c)
			p.i++
		}
	}
}

func jnodeEq(a, b *jnode) bool {
	if a == nil || b == nil {
		return a == b
	}
	if a.Kind != b.Kind || a.S != b.S || a.B != b.B || len(a.Keys) != len(b.Keys) || len(a.Items) != len(b.Items) {
		return false
	}
	for i := range a.Keys {
		if a.Keys[i] != b.Keys[i] {
			return false
		}
	}
	for i := range a.Items {
		if !jnodeEq(a.Items[i], b.Items[i]) {
			return false
		}
	}
	return true
}

// ------------------------------------------------------------------------------------------------ reference tree

// the reference tree of a value: refEncode's document, where a nullable union with no member set is `null`
// (returns the number of such unions)
func (s *Schema) refTree(t RType, v *Val) (*Doc, int) {
	d := s.refEncode(t, v).clone()
	n := 0
	return s.nullUnions(t, d, &n), n
}

func (s *Schema) nullUnions(t RType, d *Doc, cnt *int) *Doc {
	switch {
	case t.Primitive != "":
	case t.Array != nil:
		for i, x := range d.Items {
			d.Items[i] = s.nullUnions(*t.Array, x, cnt)
		}
	case t.Map != nil:
		for i, x := range d.Items {
			d.Items[i] = s.nullUnions(*t.Map, x, cnt)
		}
	default:
		n := s.Types[t.Reference.Name]
		switch n.Kind {
		case "record":
			for i, k := range d.Keys {
				if ft, ok := s.fieldType(n.Name, k); ok {
					d.Items[i] = s.nullUnions(ft, d.Items[i], cnt)
				}
			}
		case "standaloneUnion":
			if len(d.Keys) == 0 && n.HasNull {
				*cnt++
				return &Doc{Kind: "null"}
			}
			for i, k := range d.Keys {
				for _, m := range n.Members {
					if m.Alias == k {
						d.Items[i] = s.nullUnions(m.Type, d.Items[i], cnt)
					}
				}
			}
		}
	}
	return d
}

var strictNumber = regexp.MustCompile(`^-?(0|[1-9][0-9]*)(\.[0-9]+)?([eE][+-]?[0-9]+)?$`)

// does the number text denote exactly the float of the reference document?
func floatTextDenotes(kind string, bits uint64, text string) bool {
	if !strictNumber.MatchString(text) {
		return false
	}
	f, err := strconv.ParseFloat(text, 64)
	if err != nil {
		return false
	}
	if kind == "float32" {
		return uint64(math.Float32bits(float32(f))) == bits
	}
	return math.Float64bits(f) == bits
}

func bytesAsCodePoints(s string) string {
	rs := make([]rune, len(s))
	for i := 0; i < len(s); i++ {
		rs[i] = rune(s[i])
	}
	return string(rs)
}

type treeCmp struct {
	diffs     []string
	nullUnion int // reference says null, the document has an empty object
}

func (c *treeCmp) diff(path, format string, args ...interface{}) {
	if len(c.diffs) < 6 {
		c.diffs = append(c.diffs, path+": "+fmt.Sprintf(format, args...))
	}
}

func (c *treeCmp) json(n *jnode, d *Doc, path string) {
	switch d.Kind {
	case "null":
		switch {
		case n.Kind == "null":
		case n.Kind == "obj" && len(n.Keys) == 0:
			c.nullUnion++
		default:
			c.diff(path, "expected null, found %s", n.Kind)
		}
	case "int":
		if n.Kind != "num" || n.S != strconv.FormatInt(d.Z, 10) {
			c.diff(path, "expected the integer %d, found %s %q", d.Z, n.Kind, n.S)
		}
	case "float32", "float64":
		t, special := floatText(d.Kind, d.Bits)
		if special {
			if n.Kind != "str" || n.S != t {
				c.diff(path, "expected the string %q, found %s %q", t, n.Kind, n.S)
			}
		} else if n.Kind != "num" || !floatTextDenotes(d.Kind, d.Bits, n.S) {
			c.diff(path, "expected a number denoting %s (bits %d), found %s %q", t, d.Bits, n.Kind, n.S)
		}
	case "bool":
		if n.Kind != "bool" || n.B != d.B {
			c.diff(path, "expected %v, found %s %v", d.B, n.Kind, n.B)
		}
	case "str":
		if n.Kind != "str" || n.S != d.S {
			c.diff(path, "expected the string %q, found %s %q", d.S, n.Kind, n.S)
		}
	case "bytes":
		if n.Kind != "str" || n.S != bytesAsCodePoints(d.S) {
			c.diff(path, "expected the string %q (one code point per byte of %q), found %s %q", bytesAsCodePoints(d.S), d.S, n.Kind, n.S)
		}
	case "arr":
		if n.Kind != "arr" || len(n.Items) != len(d.Items) {
			c.diff(path, "expected an array of %d items, found %s of %d", len(d.Items), n.Kind, len(n.Items))
			return
		}
		for i := range d.Items {
			c.json(n.Items[i], d.Items[i], fmt.Sprintf("%s[%d]", path, i))
		}
	case "obj":
		if n.Kind != "obj" {
			c.diff(path, "expected an object, found %s", n.Kind)
			return
		}
		idx := map[string]*jnode{}
		for i, k := range n.Keys {
			idx[k] = n.Items[i]
		}
		for i, k := range d.Keys {
			x, ok := idx[k]
			if !ok {
				c.diff(path, "member %q is absent", k)
				continue
			}
			delete(idx, k)
			c.json(x, d.Items[i], joinPath(path, k))
		}
		for k := range idx {
			c.diff(path, "unexpected member %q", k)
		}
	default:
		panic("treeCmp.json " + d.Kind)
	}
}

// ------------------------------------------------------------------------------------------------ reference ROR2 parser
//
//	value := '(' [entry (',' entry)*] ')' | 'List(' [value (',' value)*] ')' | "''" | text
//	entry := key ':' value        key := "''" | text
//	text  := one or more of (any byte other than ( ) , : ' %) | '%' HEX HEX          (upper or lower case hex)
type rnode struct {
	Kind  string // leaf list obj
	S     string // leaf: the percent-decoded octets
	Keys  []string
	Items []*rnode
}

type ror2Parser struct {
	s       string
	i       int
	flavour int // 2 header, 3 path, 4 query
	err     string
	rawBad  []string // raw bytes that the context does not allow unencoded
}

func rawAllowed(flavour int, c byte) bool {
	if (c >= '0' && c <= '9') || (c >= 'a' && c <= 'z') || (c >= 'A' && c <= 'Z') || c == '-' || c == '.' || c == '_' || c == '~' {
		return true // RFC 3986 unreserved
	}
	switch flavour {
	case 2:
		return true // header: everything but the six reserved characters, which never reach this point
	case 3:
		return strings.IndexByte("!$&*+;=@", c) >= 0
	default:
		return strings.IndexByte("!$*;@/?", c) >= 0
	}
}

func (p *ror2Parser) fail(what string) *rnode {
	if p.err == "" {
		p.err = fmt.Sprintf("%s at offset %d", what, p.i)
	}
	return nil
}

func (p *ror2Parser) text() (string, bool) {
	start := p.i
	var sb strings.Builder
	for p.i < len(p.s) {
		c := p.s[p.i]
		if c == '(' || c == ')' || c == ',' || c == ':' || c == '\'' {
			break
		}
		if c == '%' {
			if p.i+2 >= len(p.s) {
				p.fail("truncated percent escape")
				return "", false
			}
			h, ok1 := hexVal(p.s[p.i+1])
			l, ok2 := hexVal(p.s[p.i+2])
			if !ok1 || !ok2 {
				p.fail("malformed percent escape")
				return "", false
			}
			sb.WriteByte(byte(h<<4 | l))
			p.i += 3
			continue
		}
		if !rawAllowed(p.flavour, c) && len(p.rawBad) < 4 {
			p.rawBad = append(p.rawBad, fmt.Sprintf("%q at offset %d", string([]byte{c}), p.i))
		}
		if p.flavour == 4 && c == '+' {
			// in a query string '+' stands for a space (a Rest.li WRITER writes %20: the byte is still reported above when it is
			// found in an emitted document); in path segments and headers '+' is a literal plus
			c = ' '
		}
		sb.WriteByte(c)
		p.i++
	}
	if p.i == start {
		p.fail("empty text (the empty string is '')")
		return "", false
	}
	return sb.String(), true
}

func (p *ror2Parser) value(depth int) *rnode {
	if p.err != "" || depth > 200 {
		return p.fail("too deep")
	}
	rest := p.s[p.i:]
	switch {
	case strings.HasPrefix(rest, "List("):
		p.i += 5
		n := &rnode{Kind: "list"}
		if p.i < len(p.s) && p.s[p.i] == ')' {
			p.i++
			return n
		}
		for {
			v := p.value(depth + 1)
			if p.err != "" {
				return nil
			}
			n.Items = append(n.Items, v)
			if p.i < len(p.s) && p.s[p.i] == ',' {
				p.i++
				continue
			}
			if p.i < len(p.s) && p.s[p.i] == ')' {
				p.i++
				return n
			}
			return p.fail("expected , or ) in a list")
		}
	case strings.HasPrefix(rest, "("):
		p.i++
		n := &rnode{Kind: "obj"}
		if p.i < len(p.s) && p.s[p.i] == ')' {
			p.i++
			return n
		}
		seen := map[string]bool{}
		for {
			var k string
			if strings.HasPrefix(p.s[p.i:], "''") {
				p.i += 2
			} else {
				var ok bool
				if k, ok = p.text(); !ok {
					return nil
				}
			}
			if seen[k] {
				return p.fail("duplicate-key")
			}
			seen[k] = true
			if p.i >= len(p.s) || p.s[p.i] != ':' {
				return p.fail("expected : after a key")
			}
			p.i++
			v := p.value(depth + 1)
			if p.err != "" {
				return nil
			}
			n.Keys = append(n.Keys, k)
			n.Items = append(n.Items, v)
			if p.i < len(p.s) && p.s[p.i] == ',' {
				p.i++
				continue
			}
			if p.i < len(p.s) && p.s[p.i] == ')' {
				p.i++
				return n
			}
			return p.fail("expected , or ) in an object")
		}
	case strings.HasPrefix(rest, "''"):
		p.i += 2
		return &rnode{Kind: "leaf"}
	}
	s, ok := p.text()
	if !ok {
		return nil
	}
	return &rnode{Kind: "leaf", S: s}
}

// parse the whole input; what = "" when it is in the grammar
func refParseROR2(text string, flavour int) (n *rnode, what string, detail string, rawBad []string) {
	p := &ror2Parser{s: text, flavour: flavour}
	n = p.value(0)
	if p.err == "" && p.i != len(p.s) {
		p.fail("input not consumed")
	}
	if p.err != "" {
		if strings.HasPrefix(p.err, "duplicate-key") {
			return nil, "duplicate-key", p.err, nil
		}
		return nil, "not-in-grammar", p.err, nil
	}
	return n, "", "", p.rawBad
}

func (c *treeCmp) ror2(n *rnode, d *Doc, path string) {
	leaf := func() (string, bool) {
		if n.Kind != "leaf" {
			c.diff(path, "expected a %s leaf, found %s", d.Kind, n.Kind)
			return "", false
		}
		return n.S, true
	}
	switch d.Kind {
	case "null":
		if n.Kind == "obj" && len(n.Keys) == 0 {
			c.nullUnion++
		} else {
			c.diff(path, "a null union has no ROR2 form, found %s", n.Kind)
		}
	case "int":
		if s, ok := leaf(); ok && s != strconv.FormatInt(d.Z, 10) {
			c.diff(path, "expected the integer %d, found %q", d.Z, s)
		}
	case "float32", "float64":
		t, special := floatText(d.Kind, d.Bits)
		if s, ok := leaf(); ok {
			if special && s != t {
				c.diff(path, "expected %s, found %q", t, s)
			} else if !special && !floatTextDenotes(d.Kind, d.Bits, s) {
				c.diff(path, "expected a number denoting %s (bits %d), found %q", t, d.Bits, s)
			}
		}
	case "bool":
		if s, ok := leaf(); ok && s != strconv.FormatBool(d.B) {
			c.diff(path, "expected %v, found %q", d.B, s)
		}
	case "str", "bytes":
		if s, ok := leaf(); ok && s != d.S {
			c.diff(path, "expected the octets %q, found %q", d.S, s)
		}
	case "arr":
		if n.Kind != "list" || len(n.Items) != len(d.Items) {
			c.diff(path, "expected a list of %d items, found %s of %d", len(d.Items), n.Kind, len(n.Items))
			return
		}
		for i := range d.Items {
			c.ror2(n.Items[i], d.Items[i], fmt.Sprintf("%s[%d]", path, i))
		}
	case "obj":
		if n.Kind != "obj" {
			c.diff(path, "expected an object, found %s", n.Kind)
			return
		}
		idx := map[string]*rnode{}
		for i, k := range n.Keys {
			idx[k] = n.Items[i]
		}
		for i, k := range d.Keys {
			x, ok := idx[k]
			if !ok {
				c.diff(path, "member %q is absent", k)
				continue
			}
			delete(idx, k)
			c.ror2(x, d.Items[i], joinPath(path, k))
		}
		for k := range idx {
			c.diff(path, "unexpected member %q", k)
		}
	default:
		panic("treeCmp.ror2 " + d.Kind)
	}
}

// ------------------------------------------------------------------------------------------------ reference renderers (variants)

type jsonVariant struct {
	ws      bool // insignificant whitespace around every token
	escapes int  // 0 minimal, 1 every legal alternative drawn per character, 2 \uXXXX for everything (surrogate pairs), \/ for /
	numAlt  bool // alternative texts for floats (exponent form, capital E, explicit +)
}

func c03JSONString(s string, st jsonVariant, r *hx.Rand) string {
	var sb strings.Builder
	sb.WriteByte('"')
	u := func(x rune) {
		if r.Bool() {
			fmt.Fprintf(&sb, `\u%04x`, x)
		} else {
			fmt.Fprintf(&sb, `\u%04X`, x)
		}
	}
	uni := func(x rune) {
		if x >= 0x10000 {
			x -= 0x10000
			u(0xD800 + (x >> 10))
			u(0xDC00 + (x & 0x3FF))
		} else {
			u(x)
		}
	}
	short := map[rune]string{'"': `\"`, '\\': `\\`, '\b': `\b`, '\f': `\f`, '\n': `\n`, '\r': `\r`, '\t': `\t`}
	for _, x := range s {
		mustEscape := x == '"' || x == '\\' || x < 0x20
		mode := 0 // 0 raw / shortest, 1 short escape, 2 \u
		switch st.escapes {
		case 1:
			mode = r.Intn(3)
		case 2:
			mode = 2
			if x < 128 && (x == ' ' || (x >= '0' && x <= '9') || (x >= 'a' && x <= 'z') || (x >= 'A' && x <= 'Z')) {
				mode = 0
			}
		}
		switch {
		case x == '/' && mode != 0:
			if mode == 1 || st.escapes == 2 {
				sb.WriteString(`\/`)
			} else {
				uni(x)
			}
		case mode == 2:
			uni(x)
		case short[x] != "" && (mustEscape || mode == 1):
			sb.WriteString(short[x])
		case mustEscape:
			uni(x)
		default:
			sb.WriteRune(x)
		}
	}
	sb.WriteByte('"')
	return sb.String()
}

// an alternative but legal JSON number text for the same float
func altFloatText(kind string, bits uint64, r *hx.Rand) string {
	var f float64
	if kind == "float32" {
		f = float64(math.Float32frombits(uint32(bits)))
	} else {
		f = math.Float64frombits(bits)
	}
	var t string
	switch r.Intn(3) {
	case 0:
		t = strconv.FormatFloat(f, 'e', -1, 64) // d.ddde+XX
	case 1:
		t = strings.ToUpper(strconv.FormatFloat(f, 'e', -1, 64))
	default:
		t = strconv.FormatFloat(f, 'g', -1, 64)
		if a := math.Abs(f); a < 1e15 && a == math.Floor(a) && !strings.ContainsAny(t, "e.") {
			t += ".0"
		}
	}
	if !floatTextDenotes(kind, bits, t) {
		t, _ = floatText(kind, bits)
	}
	return t
}

func c03JSON(d *Doc, st jsonVariant, r *hx.Rand) string {
	ws := func() string {
		if st.ws {
			return []string{"", " ", "\n", "\t ", "  \r\n", "\r", " \t\n "}[r.Intn(7)]
		}
		return ""
	}
	switch d.Kind {
	case "null":
		return "null"
	case "int":
		return strconv.FormatInt(d.Z, 10)
	case "float32", "float64":
		t, special := floatText(d.Kind, d.Bits)
		if special {
			return `"` + t + `"`
		}
		if st.numAlt {
			return altFloatText(d.Kind, d.Bits, r)
		}
		return t
	case "bool":
		return strconv.FormatBool(d.B)
	case "str":
		return c03JSONString(d.S, st, r)
	case "bytes":
		return c03JSONString(bytesAsCodePoints(d.S), st, r)
	case "arr":
		parts := make([]string, len(d.Items))
		for i, x := range d.Items {
			parts[i] = ws() + c03JSON(x, st, r) + ws()
		}
		return "[" + ws() + strings.Join(parts, ",") + "]"
	case "obj":
		parts := make([]string, len(d.Items))
		for i, x := range d.Items {
			parts[i] = ws() + c03JSONString(d.Keys[i], st, r) + ws() + ":" + ws() + c03JSON(x, st, r) + ws()
		}
		return "{" + ws() + strings.Join(parts, ",") + "}"
	}
	panic("c03JSON " + d.Kind)
}

// ROR2 leaf encodings: min (only what the context requires... the reference keeps unreserved raw), max (everything but letters
// and digits), lower (max with lower-case hex), all (every byte, letters and digits included), mixed (drawn per byte among the
// legal choices of the flavour, random hex case)
// Query flavour only: plus (min, with every space written '+': tokens made of unreserved characters and spaces then hold no '%'
// at all) and, inside mixed, a space drawn among '+', %20 and (never) raw.
var ror2Kinds = []string{"min", "max", "lower", "all", "mixed"}

func c03Percent(s string, flavour int, kind string, r *hx.Rand) string {
	if s == "" {
		return "''"
	}
	var sb strings.Builder
	for i := 0; i < len(s); i++ {
		c := s[i]
		alnum := (c >= '0' && c <= '9') || (c >= 'a' && c <= 'z') || (c >= 'A' && c <= 'Z')
		reserved := strings.IndexByte("(),:'%", c) >= 0
		mayStayRaw := !reserved && rawAllowed(flavour, c)
		raw := false
		upper := true
		if flavour == 4 && c == ' ' && (kind == "plus" || (kind == "mixed" && r.Chance(50))) {
			sb.WriteByte('+')
			continue
		}
		switch kind {
		case "min", "plus":
			raw = mayStayRaw
		case "max":
			raw = alnum
		case "lower":
			raw, upper = alnum, false
		case "all":
			raw, upper = false, r.Bool()
		default:
			raw, upper = mayStayRaw && r.Chance(60), r.Bool()
		}
		switch {
		case raw:
			sb.WriteByte(c)
		case upper:
			fmt.Fprintf(&sb, "%%%02X", c)
		default:
			fmt.Fprintf(&sb, "%%%02x", c)
		}
	}
	return sb.String()
}

func c03ROR2(d *Doc, flavour int, kind string, r *hx.Rand) string {
	switch d.Kind {
	case "int":
		return c03Percent(strconv.FormatInt(d.Z, 10), flavour, kind, r)
	case "float32", "float64":
		t, _ := floatText(d.Kind, d.Bits)
		return c03Percent(t, flavour, kind, r)
	case "bool":
		return c03Percent(strconv.FormatBool(d.B), flavour, kind, r)
	case "str", "bytes":
		return c03Percent(d.S, flavour, kind, r)
	case "arr":
		parts := make([]string, len(d.Items))
		for i, x := range d.Items {
			parts[i] = c03ROR2(x, flavour, kind, r)
		}
		return "List(" + strings.Join(parts, ",") + ")"
	case "obj":
		parts := make([]string, len(d.Items))
		for i, x := range d.Items {
			parts[i] = c03Percent(d.Keys[i], flavour, kind, r) + ":" + c03ROR2(x, flavour, kind, r)
		}
		return "(" + strings.Join(parts, ",") + ")"
	}
	panic("c03ROR2 " + d.Kind)
}

func docHasSpace(d *Doc) bool {
	if d == nil {
		return false
	}
	if (d.Kind == "str" || d.Kind == "bytes") && strings.IndexByte(d.S, ' ') >= 0 {
		return true
	}
	for _, k := range d.Keys {
		if strings.IndexByte(k, ' ') >= 0 {
			return true
		}
	}
	for _, x := range d.Items {
		if docHasSpace(x) {
			return true
		}
	}
	return false
}

// some text token (between the delimiters of the notation) holds a '+' and no '%'
func tokenWithPlusAndNoPercent(text string) bool {
	for _, tok := range strings.FieldsFunc(text, func(r rune) bool { return r == '(' || r == ')' || r == ',' || r == ':' }) {
		if strings.IndexByte(tok, '+') >= 0 && strings.IndexByte(tok, '%') < 0 {
			return true
		}
	}
	return false
}

// conforming structural variants of a document: members permuted in every object, unknown members of primitive / object /
// array shape injected at any position of every record, and (JSON) "field": null for unset optional fields
func conformVariant(s *Schema, t RType, d *Doc, r *hx.Rand, isJSON bool) (*Doc, []string) {
	d = d.clone()
	var objs []objRef
	s.objects(t, d, "", &objs)
	feat := map[string]bool{}
	for _, o := range objs {
		if o.rec != "" {
			for k := r.Intn(3); k > 0 && r.Chance(70); k-- {
				unk := []*Doc{{Kind: "int", Z: 7}, {Kind: "int", Z: -9223372036854775808}, {Kind: "str", S: "x(y"}, {Kind: "str", S: ""}, {Kind: "str", S: "a b,c:d'e%f\"\\é😀"},
					{Kind: "bool", B: true}, {Kind: "float64", Bits: math.Float64bits(-1.5e300)},
					{Kind: "obj", Keys: []string{"a", "b"}, Items: []*Doc{{Kind: "int", Z: 1}, {Kind: "arr", Items: []*Doc{{Kind: "str", S: ""}}}}},
					{Kind: "obj", Keys: []string{"", "List("}, Items: []*Doc{{Kind: "obj"}, {Kind: "arr", Items: []*Doc{{Kind: "arr"}, {Kind: "obj", Keys: []string{"k"}, Items: []*Doc{{Kind: "str", S: ")"}}}}}}},
					{Kind: "arr", Items: []*Doc{{Kind: "obj"}, {Kind: "int", Z: 2}}}, {Kind: "arr"}, {Kind: "obj"}}
				if isJSON {
					unk = append(unk, &Doc{Kind: "null"}, &Doc{Kind: "arr", Items: []*Doc{{Kind: "null"}, {Kind: "bool"}}})
				}
				k := []string{"zzUnknown", "aUnknown", "unknown_" + fmt.Sprint(r.Intn(9)), "$unknown", "un known:é(", "A"}[r.Intn(6)]
				_, known := s.fieldType(o.rec, k)
				dup := false
				for _, x := range o.d.Keys {
					dup = dup || x == k
				}
				if known || dup {
					continue
				}
				pos := r.Intn(len(o.d.Keys) + 1)
				o.d.Keys = append(o.d.Keys[:pos], append([]string{k}, o.d.Keys[pos:]...)...)
				o.d.Items = append(o.d.Items[:pos], append([]*Doc{unk[r.Intn(len(unk))]}, o.d.Items[pos:]...)...)
				feat["inject-unknown"] = true
			}
			if isJSON {
				for _, f := range s.optionalFieldsOf(o.rec) {
					present := false
					for _, x := range o.d.Keys {
						present = present || x == f
					}
					if !present && r.Chance(30) {
						pos := r.Intn(len(o.d.Keys) + 1)
						o.d.Keys = append(o.d.Keys[:pos], append([]string{f}, o.d.Keys[pos:]...)...)
						o.d.Items = append(o.d.Items[:pos], append([]*Doc{{Kind: "null"}}, o.d.Items[pos:]...)...)
						feat["null-optional"] = true
					}
				}
			}
		}
		if len(o.d.Keys) > 1 && r.Chance(75) {
			for i := len(o.d.Keys) - 1; i > 0; i-- {
				j := r.Intn(i + 1)
				o.d.Keys[i], o.d.Keys[j] = o.d.Keys[j], o.d.Keys[i]
				o.d.Items[i], o.d.Items[j] = o.d.Items[j], o.d.Items[i]
			}
			feat["permute"] = true
		}
	}
	var fs []string
	for _, k := range []string{"inject-unknown", "null-optional", "permute"} {
		if feat[k] {
			fs = append(fs, k)
		}
	}
	return d, fs
}

// optional fields (isOptional, no default) of a record, includes flattened
func (s *Schema) optionalFieldsOf(rec string) []string {
	n := s.Types[rec]
	var out []string
	for _, inc := range n.Includes {
		out = append(out, s.optionalFieldsOf(inc)...)
	}
	for _, f := range n.Fields {
		if f.IsOptional && f.DefaultValue == nil {
			out = append(out, f.Name)
		}
	}
	return out
}

// ------------------------------------------------------------------------------------------------ the check

type c03Sizes struct {
	perType   int // seeded values per top type
	sweepStep int // the single-byte sweep covers every byte; ODec ops are recorded for every sweepStep-th only
	jsonVar   int // JSON variants per value
	ror2Var   int // ROR2 variants per value and reader
	envelopes int
}

func famName(f int) string {
	if f >= 2 {
		return "ror2-" + formats[f]
	}
	return "json"
}

func quoteAll(l []string) []string {
	out := make([]string, len(l))
	for i, s := range l {
		out[i] = strconv.Quote(s)
	}
	return out
}

func runC03(cfg *hx.Config) {
	rep := hx.NewReport("schema family (named types through the REAL generator) x seeded values (the C01 generator: sizes 0-3 per container, depth <= 3, byte pool weighted towards every " +
		"ROR2/JSON/URL metacharacter, control bytes, 0x80-0xFF, multi-byte UTF-8, U+2028, empty strings/containers/keys, int extremes, float specials) plus a single-byte sweep (each of the " +
		"256 bytes as string value, map key and bytes value). FORWARD: each of the 5 writers' output is parsed by two independent strict JSON parsers / an independent ROR2 grammar parser " +
		"(+ per-context raw-byte rule) and the tree compared with the reference tree of the value. CONVERSE: from each valid value, conforming documents drawn by a reference renderer " +
		"(members permuted in every object, unknown members of primitive/object/array shape at any position of every record, null for unset optional fields, whitespace, every legal " +
		"alternative string escape incl. surrogate pairs and \\/, alternative number texts; ROR2: minimal / maximal / lower-case-hex / everything-encoded / mixed percent-encoding; query strings also with a space written '+', incl. tokens without any '%') are fed to " +
		"the JSON, ROR2 header/path and query readers, expected value = the value with defaults filled. ENVELOPES: the hand-written collection/batch/create/action envelope types around seeded " +
		"family records, shape-checked against the protocol member names and decoded back from reference renderings. " +
		"non-trivial = forward: the value holds a string/key/bytes with a byte outside [A-Za-z0-9_] or a float; converse: the variant differs from the library's own output for that format; " +
		"envelope: at least one payload element. distinct by (type, value), (type, reader, document), (envelope type, document)")
	sh := hx.NewShards(cfg.Out, header(), "CodecCorr", 60)
	r := hx.NewRand(cfg.Seed)
	rEnv := hx.NewRand(cfg.Seed ^ 0xC03E) // the envelope stream does not depend on the value stream (replayable on its own)
	sz := c03Sizes{perType: 36, sweepStep: 4, jsonVar: 2, ror2Var: 1, envelopes: 40}
	if cfg.Thorough() {
		sz = c03Sizes{perType: 520, sweepStep: 1, jsonVar: 3, ror2Var: 2, envelopes: 600}
	}
	if cfg.Replay != "" {
		c03Replay(cfg, sz, r, rEnv, rep, sh)
		sh.Close()
		rep.Shards = sh.Files
		rep.Write(cfg.Out)
		return
	}
	for _, tname := range schema.Top {
		for i := 0; i < sz.perType; i++ {
			o := genOpts{utf8: r.Chance(85), depth: 1 + r.Intn(3)}
			runConform(tname, schema.gen(r, ref(tname), o), "", true, sz, r, rep, sh)
		}
	}
	// single-byte sweep
	for b := 0; b < 256; b++ {
		s := string([]byte{byte(b)})
		withDec := b%sz.sweepStep == 0 || strings.IndexByte("(),:'%+ &=#?/\"\\\x00\x7f\x80\xff", byte(b)) >= 0
		// Prims: the byte as a bytes value in every format incl. JSON (the string field holds the code point's UTF-8 so that JSON can carry the value);
		// Coll: the raw byte as string value and map key (JSON judged for the bytes below 0x80 only)
		prims := &Val{K: "rec", Fields: []*Val{{K: "int", Z: 1}, {K: "long", Z: 2}, {K: "float", Bits: 0}, {K: "double", Bits: 0}, {K: "bool", B: true}, {K: "str", S: string(rune(b))}, {K: "bytes", S: s}}}
		runConform("Prims", prims, "sweep", withDec, sz, r, rep, sh)
		coll := &Val{K: "rec", Fields: []*Val{
			{K: "arr", Items: []*Val{{K: "str", S: s}, {K: "str", S: "x" + s + "y"}}},
			{K: "map", Keys: []string{s, "k" + s}, Items: []*Val{{K: "str", S: s}, {K: "str", S: ""}}},
			{K: "map", Keys: []string{s}, Items: []*Val{{K: "arr", Items: []*Val{{K: "rec", Fields: []*Val{{K: "int", Z: 7}, {K: "str", S: s}}}}}}},
			{K: "arr", Items: []*Val{{K: "map", Keys: []string{s}, Items: []*Val{{K: "long", Z: -5}}}}},
			{K: "arr", Items: []*Val{{K: "bytes", S: s}}},
			nil}}
		runConform("Coll", coll, "sweep", withDec, sz, r, rep, sh)
		fx := &Val{K: "fixed", S: "a" + s + s + "("}
		runConform("Fx4", fx, "sweep", withDec && b%16 == 0, sz, r, rep, sh)
	}
	// spaces in "easy" strings, keys, array items and map values (what a foreign producer writes with '+' in a query string):
	// alone in a token, between letters, leading/trailing, next to tokens that need a percent escape
	for _, sp := range []string{" ", "a b", "hello big world", " x", "x ", "a  b", "first name"} {
		str := func(x string) *Val { return &Val{K: "str", S: x} }
		runConform("Inner", &Val{K: "rec", Fields: []*Val{{K: "int", Z: 1}, str(sp)}}, "plus", true, sz, r, rep, sh)
		runConform("Coll", &Val{K: "rec", Fields: []*Val{
			{K: "arr", Items: []*Val{str(sp), str("c"), str("a(b " + sp)}},
			{K: "map", Keys: []string{sp, "k,%"}, Items: []*Val{str("Ada L"), str(sp)}},
			{K: "map", Keys: []string{"m " + sp}, Items: []*Val{{K: "arr", Items: []*Val{{K: "rec", Fields: []*Val{{K: "int", Z: 7}, str(sp)}}}}}},
			{K: "arr"}, nil, nil}}, "plus", true, sz, r, rep, sh)
		runConform("U", &Val{K: "union", Fields: []*Val{nil, str(sp), nil, nil, nil}}, "plus", true, sz, r, rep, sh)
		runConform("U", &Val{K: "union", Fields: []*Val{nil, nil, nil, {K: "arr", Items: []*Val{str(sp), str("b c")}}, nil}}, "plus", true, sz, r, rep, sh)
	}
	// writers constructed WITH excluded fields (request bodies of create / update with read-only paths): whatever is excluded - a
	// few members, every member of some object, whole subtrees - the emitted document is well-formed in its format (which values
	// are omitted is C07's business; that the bytes are a document at all is this property's)
	rx := hx.NewRand(cfg.Seed ^ 0xE7C1)
	for _, tname := range recordTops {
		t := ref(tname)
		for i := 0; i < sz.perType/3+4; i++ {
			v := schema.gen(rx, t, genOpts{utf8: true, depth: 1 + rx.Intn(3)})
			if !schema.valid(t, v) {
				continue
			}
			base := schema.refEncode(t, v)
			paths := schema.randomPaths(rx, t, base)
			if len(paths) == 0 {
				continue
			}
			var specs [][]string
			specs = append(specs, []string{paths[rx.Intn(len(paths))]})
			// every member of one object excluded: all key paths sharing the parent of a random path
			pick := paths[rx.Intn(len(paths))]
			parent := ""
			if k := strings.LastIndex(pick, "/"); k >= 0 {
				parent = pick[:k+1]
			}
			var sibs []string
			for _, segs := range keyPaths(base) {
				q := strings.Join(segs, "/")
				if strings.HasPrefix(q, parent) && !strings.Contains(q[len(parent):], "/") {
					sibs = append(sibs, q)
				}
			}
			if len(sibs) > 0 && wellFormedDirectives(sibs) {
				specs = append(specs, sibs)
			}
			ptr := reflect.New(registry[tname])
			schema.toGo(t, v, ptr.Elem())
			for _, ds := range specs {
				spec := restlicodec.NewPathSpec(ds...)
				for _, f := range []int{0, 1, 2, 3} {
					out, oc := encode(ptr, f, spec)
					rep.Evaluations++
					rep.Count("excluded-fields-writer")
					if oc.Class != "ok" {
						continue
					}
					cd := map[string]interface{}{"direction": "forward-with-exclusion", "type": tname, "format": formats[f], "spec": ds, "value": v.fixJSON(), "out": out}
					if f <= 1 {
						if _, what := strictJSON(out); what != "" {
							rep.Fail("conform:excluded-writer:malformed-json", "a writer with excluded fields emitted a document that is not well-formed JSON", "v2/restlicodec/writer.go:WriteMap", cd, what)
						}
					} else if _, what, detail, _ := refParseROR2(out, f); what != "" {
						rep.Fail("conform:excluded-writer:malformed-ror2", "a writer with excluded fields emitted a document outside the ROR2 grammar", "v2/restlicodec/writer.go:WriteMap", cd, what+" "+detail)
					}
				}
			}
		}
	}
	runEnvelopes(sz.envelopes, rEnv, rep)
	checkProtocolHeaders(rep)
	sh.Close()
	rep.Shards = sh.Files
	rep.Write(cfg.Out)
}

// replay of a failing input written by the check: {"case": {"direction", "type", "value", "reader", "document_quoted", ...}}
//   forward / converse: the recorded value goes through the whole judgement again (all writers, fresh conforming variants), and a
//   recorded converse document is fed again to the reader it failed on, verbatim; envelope cases: the envelope stream of the same
//   seed and tier is run again (it is independent of the value stream)
func c03Replay(cfg *hx.Config, sz c03Sizes, r, rEnv *hx.Rand, rep *hx.Report, sh *hx.Shards) {
	b, err := os.ReadFile(cfg.Replay)
	if err != nil {
		panic(err)
	}
	var rp struct {
		Case struct {
			Direction string `json:"direction"`
			Type      string `json:"type"`
			Reader    string `json:"reader"`
			Value     *Val   `json:"value"`
			DocQ      string `json:"document_quoted"`
		} `json:"case"`
	}
	if err := json.Unmarshal(b, &rp); err != nil {
		panic(err)
	}
	c := rp.Case
	switch {
	case strings.HasPrefix(c.Direction, "envelope"):
		runEnvelopes(sz.envelopes, rEnv, rep)
	case c.Value != nil && registry[c.Type] != nil:
		c.Value.c03Unfix()
		runConform(c.Type, c.Value, "replay", true, sz, r, rep, sh)
		if c.Direction == "converse" {
			doc, err := strconv.Unquote(c.DocQ)
			f := map[string]int{"json": 0, "header": 2, "path": 3, "query": 4}[c.Reader]
			if err == nil {
				t := ref(c.Type)
				oc, got := decodeVal(c.Type, f, doc, nil, 0)
				expect := schema.fillDefaults(t, c.Value)
				cd := map[string]interface{}{"mode": "c03", "direction": "converse", "type": c.Type, "reader": c.Reader, "variant": []string{"replayed"}, "value": c.Value.fixJSON(),
					"document": doc, "document_quoted": c.DocQ, "outcome": oc, "decoded": got.fixJSON(), "expected": expect.fixJSON()}
				rep.Evaluations++
				switch {
				case oc.Class != "ok":
					rep.Fail("conform:reject:"+c.Reader+":"+oc.Class, "a conforming document that denotes a valid value is rejected", "v2/restlicodec "+c.Reader+" reader", cd, oc.Text)
				case !valEq(got, expect) && valEq(got, schema.fillDefaultsAsGenerated(t, c.Value)):
					rep.Fail("conform:included-record-defaults-not-filled", "defaults declared in an included record are not filled when the including record is decoded",
						"v2/codegen/types/record_unmarshaler.go:generateUnmarshaler", cd, nil)
				case !valEq(got, expect):
					rep.Fail("conform:value-differs:"+c.Reader, "a conforming document is accepted but yields another value", "v2/restlicodec "+c.Reader+" reader", cd, nil)
				}
			}
		}
	default:
		fmt.Fprintln(os.Stderr, "c03: nothing replayable in", cfg.Replay)
	}
}

// inverse of fixJSON (strings and keys are stored quoted)
func (v *Val) c03Unfix() {
	if v == nil {
		return
	}
	if v.SHex != "" {
		if s, err := strconv.Unquote(v.SHex); err == nil {
			v.S = s
		}
	}
	v.Keys = nil
	for _, k := range v.KeysQ {
		s, _ := strconv.Unquote(k)
		v.Keys = append(v.Keys, s)
	}
	for _, l := range [][]*Val{v.Incs, v.Fields, v.Items} {
		for _, x := range l {
			x.c03Unfix()
		}
	}
}

func runConform(tname string, v *Val, note string, withDec bool, sz c03Sizes, r *hx.Rand, rep *hx.Report, sh *hx.Shards) {
	T := registry[tname]
	t := ref(tname)
	c := newCase("c03", tname, schema.coqTy(t))
	c.desc.Note = note
	ptr := reflect.New(T)
	schema.toGo(t, v, ptr.Elem())
	utf8ok := textValidUtf8(v)
	valid := schema.valid(t, v)
	want, nullUnions := schema.refTree(t, v)
	var compact *jnode
	outs := make([]string, len(formats))
	okEnc := make([]bool, len(formats))

	// ---- FORWARD: every emitted document conforms and denotes v
	for f := range formats {
		out, oc := encode(ptr, f, nil)
		c.enc(f, v, oc, out)
		if oc.Class != "ok" {
			// rejecting / panicking encoders are C01's and C11's findings; nothing was emitted, nothing to judge here
			rep.Count("skipped=forward:nothing-emitted:" + formats[f])
			continue
		}
		outs[f], okEnc[f] = out, true
		if withDec {
			doc, decodedVal := decodeVal(tname, f, out, nil, 0)
			c.dec(f, out, doc, decodedVal)
		}
		site := "v2/restlicodec " + formats[f] + " writer"
		cd := func(extra map[string]interface{}) map[string]interface{} {
			m := map[string]interface{}{"mode": "c03", "direction": "forward", "type": tname, "format": formats[f], "value": v.fixJSON(),
				"document": out, "document_quoted": strconv.Quote(out), "reference_json": want.refJSONSafe()}
			for k, x := range extra {
				m[k] = x
			}
			return m
		}
		rep.Count("forward:format=" + formats[f])
		if f <= 1 {
			if !utf8ok {
				rep.Count("skipped=forward-json:value-not-utf8")
				continue
			}
			tree, what := strictJSON(out)
			if what != "" {
				rep.Fail("conform:json:"+what, "the emitted JSON document is rejected by the independent strict parser", site, cd(nil), what)
				continue
			}
			if f == 0 {
				compact = tree
			} else if compact != nil && !jnodeEq(compact, tree) {
				rep.Fail("conform:json:compact-pretty-differ", "the compact and the pretty writer emit documents that parse to different trees", site, cd(map[string]interface{}{"compact": outs[0]}), nil)
			}
			cmp := &treeCmp{}
			cmp.json(tree, want, "")
			if len(cmp.diffs) > 0 {
				rep.Fail("conform:json:tree-differs", "the emitted JSON document does not denote the value under the Rest.li wire rules", site, cd(map[string]interface{}{"differences": cmp.diffs}), cmp.diffs)
			}
			if cmp.nullUnion > 0 {
				rep.Fail("conform:json:null-union-as-empty-object", "a nullable union with no member set is written as {} instead of null", "v2/codegen/types/union.go:56,179 (generated MarshalRestLi of a nullable union: WriteMap with no member)",
					cd(map[string]interface{}{"null_unions": cmp.nullUnion}), nil)
			}
			continue
		}
		tree, what, detail, rawBad := refParseROR2(out, f)
		if what != "" {
			rep.Fail("conform:"+famName(f)+":"+what, "the emitted ROR2 document is not in the protocol grammar", site, cd(map[string]interface{}{"parser": detail}), detail)
			continue
		}
		if len(rawBad) > 0 {
			rep.Fail("conform:"+famName(f)+":raw-reserved-byte", "the emitted ROR2 document holds an unencoded byte that the "+formats[f]+" context does not allow", site, cd(map[string]interface{}{"raw_bytes": rawBad}), rawBad)
		}
		cmp := &treeCmp{}
		cmp.ror2(tree, want, "")
		if len(cmp.diffs) > 0 {
			rep.Fail("conform:"+famName(f)+":tree-differs", "the emitted ROR2 document does not denote the value under the Rest.li wire rules", site, cd(map[string]interface{}{"differences": cmp.diffs}), cmp.diffs)
		}
		if cmp.nullUnion > 0 {
			rep.Fail("conform:ror2:null-union-as-empty-object", "a nullable union with no member set (which has no ROR2 form) is written as ()", "v2/codegen/types/union.go:56,179 (generated MarshalRestLi of a nullable union: WriteMap with no member)",
				cd(map[string]interface{}{"null_unions": cmp.nullUnion}), nil)
		}
	}

	// ---- CONVERSE: every conforming document denoting v is accepted and yields fill(v)
	switch {
	case !valid:
		rep.Count("skipped=converse:value-not-valid")
	case nullUnions > 0:
		rep.Count("skipped=converse:value-holds-null-union")
	case note == "sweep" && !withDec:
		rep.Count("skipped=converse:sweep-thinned")
	default:
		base := schema.refEncode(t, v)
		expect := schema.fillDefaults(t, v)
		asGenerated := schema.fillDefaultsAsGenerated(t, v)
		feed := func(f int, reader string, text string, feats []string) {
			oc, got := decodeVal(tname, f, text, nil, 0)
			c.dec(f, text, oc, got)
			rep.Evaluations++
			rep.Count("converse:reader=" + reader)
			for _, k := range feats {
				rep.Count("variant:" + k)
			}
			rep.Distinct(tname+reader+text, !okEnc[f] || text != outs[f])
			cd := map[string]interface{}{"mode": "c03", "direction": "converse", "type": tname, "reader": reader, "variant": feats, "value": v.fixJSON(),
				"document": text, "document_quoted": strconv.Quote(text), "outcome": oc, "decoded": got.fixJSON(), "expected": expect.fixJSON()}
			site := "v2/restlicodec " + reader + " reader"
			switch {
			case oc.Class != "ok":
				rep.Fail("conform:reject:"+reader+":"+oc.Class, "a conforming document that denotes a valid value is rejected", site, cd, oc.Text)
			case !valEq(got, expect) && valEq(got, asGenerated):
				rep.Fail("conform:included-record-defaults-not-filled", "defaults declared in an included record are not filled when the including record is decoded",
					"v2/codegen/types/record_unmarshaler.go:generateUnmarshaler", cd, nil)
			case !valEq(got, expect):
				rep.Fail("conform:value-differs:"+reader, "a conforming document is accepted but yields another value", site, cd, nil)
			}
			if len(feats) > 2 && text != outs[f] {
				rep.Sample(cd)
			}
		}
		nj, nr := sz.jsonVar, sz.ror2Var
		if note == "sweep" {
			nj, nr = 1, 1
		}
		if utf8ok {
			for k := 0; k < nj; k++ {
				d, feats := conformVariant(schema, t, base, r, true)
				st := jsonVariant{ws: r.Chance(60), escapes: r.Intn(3), numAlt: r.Chance(40)}
				if k == 0 {
					st.escapes = 2 // one variant per value with everything escaped (surrogate pairs, \/)
				}
				text := c03JSON(d, st, r)
				if st.ws {
					text = []string{"", " ", "\n\t", "\r\n "}[r.Intn(4)] + text + []string{"", " ", "\n", " \r\n\t"}[r.Intn(4)]
					feats = append(feats, "whitespace")
				}
				feats = append(feats, []string{"escapes-minimal", "escapes-mixed", "escapes-all-unicode"}[st.escapes])
				if st.numAlt {
					feats = append(feats, "alt-number-text")
				}
				feed(0, "json", text, feats)
			}
		} else {
			rep.Count("skipped=converse-json:value-not-utf8")
		}
		for k := 0; k < nr; k++ {
			// header/path reader: a header-flavour and a path-flavour rendering; query reader: a query-flavour rendering
			for _, f := range []int{2, 3, 4} {
				if f == 3 && k%2 == 1 {
					continue
				}
				d, feats := conformVariant(schema, t, base, r, false)
				kind := ror2Kinds[r.Intn(len(ror2Kinds))]
				feats = append(feats, "ror2-"+kind)
				feed(f, formats[f], c03ROR2(d, f, kind, r), feats)
			}
			// query strings: a space written '+' (legal there and only there: in path segments and headers '+' is a literal plus)
			if k == 0 && docHasSpace(base) {
				d, feats := conformVariant(schema, t, base, r, false)
				text := c03ROR2(d, 4, "plus", r)
				feed(4, formats[4], text, append(feats, "ror2-plus-for-space"))
				if strings.IndexByte(text, '%') < 0 || tokenWithPlusAndNoPercent(text) {
					rep.Count("variant:plus-in-a-token-without-percent")
				}
			}
		}
	}

	rep.Evaluations++
	rep.Distinct(tname+valKey(v), nontrivial(v))
	rep.Count("type=" + tname)
	rep.Count(fmt.Sprintf("utf8=%v", utf8ok))
	if nullUnions > 0 {
		rep.Count("value-holds-null-union")
	}
	sh.Add(c.coq(), c.describe())
}

// JSON can carry the value iff every STRING and every map key is valid UTF-8 (bytes and fixed are arbitrary: one code point per byte)
func textValidUtf8(v *Val) bool {
	if v == nil {
		return true
	}
	if v.K == "str" && !utf8.ValidString(v.S) {
		return false
	}
	for _, k := range v.Keys {
		if !utf8.ValidString(k) {
			return false
		}
	}
	for _, l := range [][]*Val{v.Incs, v.Fields, v.Items} {
		for _, x := range l {
			if !textValidUtf8(x) {
				return false
			}
		}
	}
	return true
}

// the reference tree as compact JSON text for failure reports (lossy for non-UTF-8 strings: report only)
func (d *Doc) refJSONSafe() string {
	defer func() { recover() }()
	return d.refJSON(jsonStyle{}, nil)
}
