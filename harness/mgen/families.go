package mgen

import (
	"fmt"
	"strings"

	"verif/harness/hx"
)

var Prims = []string{"int32", "int64", "float32", "float64", "bool", "string", "bytes"}

func sp(s string) *string { return &s }

// ---- leaf types shared by the families (namespace ns)
type leaves struct {
	ns                                  string
	types                               []*Type
	enum, fixed, inner, union, unionN   TE
	typerefs                            map[string]TE
	innerDef, unionDef, enumDef, fixDef string
}

func newLeaves(ns string) *leaves {
	l := &leaves{ns: ns, typerefs: map[string]TE{}}
	l.types = append(l.types,
		&Type{Kind: KEnum, NS: ns, Name: "Color", Symbols: []string{"RED", "GREEN", "blue_ish", "_4TH"}},
		&Type{Kind: KFixed, NS: ns, Name: "Fixed4", Size: 4},
		&Type{Kind: KRecord, NS: ns, Name: "Inner", Fields: []Field{
			{Name: "a", Type: P("int32")}, {Name: "b", Type: P("string"), Optional: true}}},
	)
	l.enum, l.fixed, l.inner = R(ns, "Color"), R(ns, "Fixed4"), R(ns, "Inner")
	for _, p := range Prims {
		n := "Tr" + strings.Title(p)
		l.types = append(l.types, &Type{Kind: KTyperef, NS: ns, Name: n, Prim: p})
		l.typerefs[p] = R(ns, n)
	}
	l.types = append(l.types,
		&Type{Kind: KUnion, NS: ns, Name: "Choice", Members: []Member{
			{P("int32"), "int"}, {P("string"), "string"}, {l.inner, ns + ".Inner"}, {Arr(P("string")), "array"},
			{MapOf(P("int64")), "map"}, {l.enum, ns + ".Color"}, {l.fixed, ns + ".Fixed4"}, {l.typerefs["int64"], ns + ".TrInt64"},
			{P("bytes"), "bytes"}, {P("bool"), "boolean"}, {P("float64"), "double"}}},
		&Type{Kind: KUnion, NS: ns, Name: "MaybeChoice", HasNull: true, Members: []Member{
			{P("int64"), "long"}, {l.inner, ns + ".Inner"}, {Arr(l.inner), "array"}}},
	)
	l.union, l.unionN = R(ns, "Choice"), R(ns, "MaybeChoice")
	l.innerDef, l.unionDef, l.enumDef, l.fixDef = `{"a": 7, "b": "x"}`, `{"int": 5}`, `"GREEN"`, `"abcd"`
	return l
}

var primDefaults = map[string]string{"int32": "42", "int64": "-7000000000", "float32": "1.5", "float64": "-2.25",
	"bool": "true", "string": `"h\"i\n"`, "bytes": `"\u0001abÿ"`}

// DefaultFor returns a valid default literal (raw JSON) for a type expression over the leaf types.
func (l *leaves) DefaultFor(t TE, alt bool) string {
	switch {
	case t.Prim != "":
		return primDefaults[t.Prim]
	case t.Ref != nil:
		switch *t.Ref {
		case *l.enum.Ref:
			return l.enumDef
		case *l.fixed.Ref:
			return l.fixDef
		case *l.inner.Ref:
			return l.innerDef
		case *l.union.Ref:
			return l.unionDef
		case *l.unionN.Ref:
			return `{"long": 1}`
		}
		for p, tr := range l.typerefs {
			if *tr.Ref == *t.Ref {
				return primDefaults[p]
			}
		}
		panic("no default for " + t.String())
	case t.Array != nil:
		if alt {
			return "[]"
		}
		d := l.DefaultFor(*t.Array, !alt)
		return "[" + d + ", " + d + "]"
	default:
		if alt {
			return "{ }"
		}
		return `{"k": ` + l.DefaultFor(*t.Map, !alt) + `}`
	}
}

// element types: every primitive and every kind of named type
func (l *leaves) elements() []TE {
	var out []TE
	for _, p := range Prims {
		out = append(out, P(p))
	}
	out = append(out, l.enum, l.fixed, l.inner, l.union, l.typerefs["int32"], l.typerefs["int64"], l.typerefs["string"],
		l.typerefs["bytes"], l.typerefs["float64"], l.typerefs["bool"], l.typerefs["float32"])
	return out
}

type wrapper struct {
	name string
	f    func(TE) TE
}

var wrappers = []wrapper{
	{"Plain", func(t TE) TE { return t }},
	{"Arr", Arr},
	{"Map", MapOf},
	{"ArrArr", func(t TE) TE { return Arr(Arr(t)) }},
	{"ArrMap", func(t TE) TE { return Arr(MapOf(t)) }},
	{"MapArr", func(t TE) TE { return MapOf(Arr(t)) }},
	{"MapMap", func(t TE) TE { return MapOf(MapOf(t)) }},
}

func fieldName(t TE) string {
	s := t.String()
	if i := strings.LastIndex(s, "."); i >= 0 && t.Ref != nil {
		s = s[i+1:]
	}
	return strings.ToLower(s[:1]) + s[1:]
}

// Positions: every type constructor (7 primitives, enum, fixed, record, union, typerefs of each primitive) under every
// wrapper (plain, array, map and the four two-level nestings) in every field position (required, optional, defaulted).
func Positions(root string) *Manifest {
	ns := "com.ex.positions"
	l := newLeaves(ns)
	m := &Manifest{Family: "positions", Root: root, WellFormed: true}
	m.Types = append(m.Types, l.types...)
	for _, w := range wrappers {
		rec := &Type{Kind: KRecord, NS: ns, Name: "Rec" + w.name}
		for i, e := range l.elements() {
			t := w.f(e)
			base := fmt.Sprintf("%s%d", fieldName(e), i)
			rec.Fields = append(rec.Fields,
				Field{Name: base + "Req", Type: t},
				Field{Name: base + "Opt", Type: t, Optional: true},
				Field{Name: base + "Def", Type: t, Default: sp(l.DefaultFor(t, i%2 == 1))})
		}
		m.Types = append(m.Types, rec)
	}
	return m
}

// IncludesUnions: includes (direct, two-level, two includes, included record with defaults), records with defaulted
// record / union fields, unions as members of arrays and maps, a record holding all records (required record with
// defaults inside: the WithDefaultValues constructor chain), self-recursive records.
func IncludesUnions(root string) *Manifest {
	ns := "com.ex.incl"
	l := newLeaves(ns)
	m := &Manifest{Family: "includes-unions", Root: root, WellFormed: true}
	m.Types = append(m.Types, l.types...)
	base := &Type{Kind: KRecord, NS: ns, Name: "Base", Fields: []Field{
		{Name: "id", Type: P("int64")}, {Name: "tag", Type: P("string"), Default: sp(`"t"`)}}}
	mid := &Type{Kind: KRecord, NS: ns, Name: "Mid", Includes: []Ref{base.Ref()}, Fields: []Field{
		{Name: "color", Type: l.enum, Default: sp(l.enumDef)}, {Name: "fx", Type: l.fixed, Optional: true}}}
	other := &Type{Kind: KRecord, NS: ns, Name: "Other", Fields: []Field{{Name: "o", Type: MapOf(l.inner), Optional: true}}}
	top := &Type{Kind: KRecord, NS: ns, Name: "Top", Includes: []Ref{mid.Ref(), other.Ref()}, Fields: []Field{
		{Name: "choice", Type: l.union}, {Name: "maybe", Type: l.unionN, Optional: true},
		{Name: "choices", Type: Arr(l.union)}, {Name: "byName", Type: MapOf(l.unionN)},
		{Name: "defChoice", Type: l.union, Default: sp(`{"` + ns + `.Inner": {"a": 1}}`)},
		{Name: "defInner", Type: l.inner, Default: sp(l.innerDef)},
		{Name: "defFixed", Type: l.fixed, Default: sp(l.fixDef)},
		{Name: "defTr", Type: l.typerefs["string"], Default: sp(`"s"`)},
		{Name: "defTrBytes", Type: l.typerefs["bytes"], Default: sp(`"xy"`)}}}
	holder := &Type{Kind: KRecord, NS: ns, Name: "Holder", Fields: []Field{
		{Name: "base", Type: R(ns, "Base")}, {Name: "mid", Type: R(ns, "Mid")}, {Name: "top", Type: R(ns, "Top"), Optional: true},
		{Name: "self", Type: R(ns, "Holder"), Optional: true}, {Name: "kids", Type: Arr(R(ns, "Holder")), Default: sp("[]")},
		{Name: "named", Type: MapOf(R(ns, "Holder")), Optional: true}}}
	// Go keywords and predeclared names as field names / enum symbols / union aliases
	kw := &Type{Kind: KRecord, NS: ns, Name: "Keywords", Fields: []Field{
		{Name: "type", Type: P("string")}, {Name: "func", Type: P("int32"), Optional: true}, {Name: "map", Type: MapOf(P("string")), Optional: true},
		{Name: "range", Type: Arr(P("int32")), Default: sp("[1]")}, {Name: "string", Type: P("string"), Optional: true},
		{Name: "error", Type: P("string"), Optional: true}, {Name: "_under", Type: P("bool"), Optional: true}, {Name: "x9", Type: P("bool")},
		{Name: "select", Type: l.enum, Optional: true}, {Name: "nil", Type: P("bytes"), Optional: true}}}
	kwEnum := &Type{Kind: KEnum, NS: ns, Name: "Words", Symbols: []string{"type", "func", "Default", "_", "$money", "A$B"}}
	m.Types = append(m.Types, base, mid, other, top, holder, kw, kwEnum)
	return m
}

var restAll = []string{"get", "create", "update", "partial_update", "delete", "get_all", "batch_get", "batch_create",
	"batch_update", "batch_partial_update", "batch_delete"}
var entityMethods = map[string]bool{"get": true, "update": true, "partial_update": true, "delete": true}

func restMethods(schema TE, names []string, simple bool, variant int) []Method {
	var out []Method
	for i, n := range names {
		me := Method{Kind: MRest, Name: n, Return: &schema}
		if !simple {
			me.OnEntity = entityMethods[n]
		}
		if n == "get_all" && variant%2 == 0 {
			me.Paging = true
		}
		if (n == "create" || n == "batch_create" || n == "partial_update") && (variant+i)%2 == 0 {
			me.ReturnEntity = true
		}
		if (variant+i)%3 == 0 {
			me.Params = []Field{{Name: "flag", Type: P("bool"), Optional: true}, {Name: "names", Type: Arr(P("string"))}}
		}
		out = append(out, me)
	}
	return out
}

func finder(name string, schema TE, params []Field, paging bool, metadata *TE) Method {
	return Method{Kind: MFinder, Name: name, Params: params, Paging: paging, Return: &schema, Metadata: metadata}
}

func action(name string, onEntity bool, params []Field, ret *TE) Method {
	return Method{Kind: MAction, Name: name, OnEntity: onEntity, Params: params, Return: ret}
}

func tp(t TE) *TE { return &t }

// Collections: one collection resource per key type (primitives, typeref, enum, complex key, fixed), each with all REST
// methods, finders (with / without params, paging, metadata) and actions (entity / collection level, each return shape).
func Collections(root string, keys []string) *Manifest {
	ns := "com.ex.coll"
	l := newLeaves(ns)
	m := &Manifest{Family: "collections", Root: root, WellFormed: true}
	m.Types = append(m.Types, l.types...)
	entity := &Type{Kind: KRecord, NS: ns, Name: "Entity", Fields: []Field{
		{Name: "id", Type: P("int64"), Optional: true}, {Name: "name", Type: P("string")},
		{Name: "created", Type: P("int64"), Optional: true}, {Name: "inner", Type: l.inner, Optional: true},
		{Name: "tags", Type: Arr(P("string")), Default: sp("[]")}}}
	meta := &Type{Kind: KRecord, NS: ns, Name: "Meta", Fields: []Field{{Name: "total", Type: P("int32")}}}
	keyRec := &Type{Kind: KRecord, NS: ns, Name: "KeyPart", Fields: []Field{{Name: "k1", Type: P("int64")}, {Name: "k2", Type: P("string")}}}
	paramRec := &Type{Kind: KRecord, NS: ns, Name: "KeyParams", Fields: []Field{{Name: "p", Type: P("int32"), Optional: true}}}
	ck := &Type{Kind: KComplexKey, NS: ns, Name: "EntityComplexKey", Key: keyRec.Ref(), Params: paramRec.Ref()}
	m.Types = append(m.Types, entity, meta, keyRec, paramRec, ck)
	eT, mT := R(ns, "Entity"), R(ns, "Meta")
	keyTE := func(k string) TE {
		switch k {
		case "typeref":
			return l.typerefs["int64"]
		case "typerefString":
			return l.typerefs["string"]
		case "enum":
			return l.enum
		case "complex":
			return R(ns, "EntityComplexKey")
		case "fixed":
			return l.fixed
		}
		return P(k)
	}
	for i, k := range keys {
		name := "coll" + strings.Title(k)
		kt := keyTE(k)
		r := &Resource{NS: ns + "." + name, Segs: []PathSeg{{Name: name, KeyName: name + "Id", Key: &kt}}, Schema: &eT}
		if i%2 == 0 {
			r.ReadOnly = []string{"id", "created"}
			r.CreateOnly = []string{"name"}
		} else if i%3 == 0 {
			r.CreateOnly = []string{"inner/a"}
		}
		r.Methods = restMethods(eT, restAll, false, i)
		r.Methods = append(r.Methods,
			finder("byName", eT, []Field{{Name: "name", Type: P("string")}, {Name: "limit", Type: P("int32"), Optional: true}}, true, nil),
			finder("all", eT, nil, false, nil),
			finder("paged", eT, nil, true, &mT),
			finder("byThings", eT, []Field{{Name: "inner", Type: l.inner}, {Name: "ids", Type: Arr(P("int64"))},
				{Name: "color", Type: l.enum, Optional: true}, {Name: "choice", Type: l.union, Optional: true},
				{Name: "tr", Type: l.typerefs["string"], Optional: true}, {Name: "m", Type: MapOf(P("string")), Optional: true}}, false, &mT),
			action("ping", false, nil, nil),
			action("count", false, []Field{{Name: "since", Type: P("int64")}}, tp(P("int32"))),
			action("touch", true, []Field{{Name: "inner", Type: l.inner, Optional: true}, {Name: "list", Type: Arr(l.inner)}}, &eT),
			action("names", true, nil, tp(Arr(P("string")))),
			action("byColor", false, []Field{{Name: "c", Type: l.enum}}, tp(MapOf(eT))),
			action("pick", true, []Field{{Name: "u", Type: l.union}}, tp(l.enum)),
			action("raw", false, []Field{{Name: "b", Type: P("bytes")}, {Name: "f", Type: l.fixed, Optional: true}}, tp(P("bytes"))),
		)
		m.Resources = append(m.Resources, r)
	}
	return m
}

// SimpleActionsSubs: a simple resource, an action set, and sub-resources (collection under collection, simple under
// collection, collection under simple, three levels deep), each with method subsets.
func SimpleActionsSubs(root string) *Manifest {
	ns := "com.ex.misc"
	l := newLeaves(ns)
	m := &Manifest{Family: "simple-actionset-subresources", Root: root, WellFormed: true}
	m.Types = append(m.Types, l.types...)
	item := &Type{Kind: KRecord, NS: ns, Name: "Item", Fields: []Field{
		{Name: "title", Type: P("string")}, {Name: "n", Type: P("int32"), Default: sp("3")}, {Name: "c", Type: l.union, Optional: true}}}
	m.Types = append(m.Types, item)
	iT := R(ns, "Item")
	k64, kStr, kEnum := P("int64"), P("string"), l.enum
	simple := &Resource{NS: ns + ".single", Segs: []PathSeg{{Name: "single"}}, Schema: &iT,
		Methods: append(restMethods(iT, []string{"get", "update", "partial_update", "delete"}, true, 1),
			action("reset", false, nil, nil), action("bump", false, []Field{{Name: "by", Type: P("int32")}}, tp(P("int64"))))}
	simpleRO := &Resource{NS: ns + ".readOnlySingle", Segs: []PathSeg{{Name: "readOnlySingle"}}, Schema: &iT,
		ReadOnly: []string{"n"}, Methods: restMethods(iT, []string{"get", "partial_update"}, true, 0)}
	actions := &Resource{NS: ns + ".tools", Segs: []PathSeg{{Name: "tools"}},
		Methods: []Method{action("echo", false, []Field{{Name: "msg", Type: P("string")}}, tp(P("string"))),
			action("noop", false, nil, nil),
			action("sum", false, []Field{{Name: "xs", Type: Arr(P("float64"))}, {Name: "w", Type: MapOf(P("float32")), Optional: true}}, tp(P("float64"))),
			action("make", false, []Field{{Name: "color", Type: l.enum}, {Name: "fx", Type: l.fixed}}, &iT),
			action("maybe", false, []Field{{Name: "u", Type: l.unionN, Optional: true}}, tp(l.union))}}
	parent := &Resource{NS: ns + ".parents", Segs: []PathSeg{{Name: "parents", KeyName: "parentId", Key: &k64}}, Schema: &iT,
		Methods: restMethods(iT, []string{"get", "create", "batch_get"}, false, 0)}
	child := &Resource{NS: ns + ".parents.children", Segs: []PathSeg{{Name: "parents", KeyName: "parentId", Key: &k64},
		{Name: "children", KeyName: "childId", Key: &kStr}}, Schema: &iT,
		Methods: append(restMethods(iT, restAll, false, 1), finder("search", iT, []Field{{Name: "q", Type: P("string")}}, true, nil),
			action("promote", true, nil, nil), action("purge", false, nil, tp(P("int32"))))}
	childSimple := &Resource{NS: ns + ".parents.profile", Segs: []PathSeg{{Name: "parents", KeyName: "parentId", Key: &k64},
		{Name: "profile"}}, Schema: &iT,
		Methods: append(restMethods(iT, []string{"get", "update", "delete"}, true, 2), action("refresh", false, nil, nil))}
	grand := &Resource{NS: ns + ".parents.children.toys", Segs: []PathSeg{{Name: "parents", KeyName: "parentId", Key: &k64},
		{Name: "children", KeyName: "childId", Key: &kStr}, {Name: "toys", KeyName: "toyId", Key: &kEnum}}, Schema: &iT,
		Methods: append(restMethods(iT, []string{"get", "get_all", "batch_delete", "partial_update"}, false, 0),
			finder("broken", iT, nil, false, nil))}
	underSimple := &Resource{NS: ns + ".single.parts", Segs: []PathSeg{{Name: "single"}, {Name: "parts", KeyName: "partId", Key: &k64}},
		Schema: &iT, Methods: restMethods(iT, []string{"get", "create", "batch_update"}, false, 1)}
	subActions := &Resource{NS: ns + ".parents.ops", Segs: []PathSeg{{Name: "parents", KeyName: "parentId", Key: &k64}, {Name: "ops"}},
		Methods: []Method{action("run", false, []Field{{Name: "arg", Type: P("string"), Optional: true}}, tp(P("bool")))}}
	m.Resources = append(m.Resources, simple, simpleRO, actions, parent, child, childSimple, grand, underSimple, subActions)
	return m
}

func recRefs(ns, name string, refs ...Ref) *Type {
	t := &Type{Kind: KRecord, NS: ns, Name: name, Fields: []Field{{Name: "v", Type: P("int32"), Optional: true}}}
	for i, r := range refs {
		t.Fields = append(t.Fields, Field{Name: fmt.Sprintf("r%d", i), Type: TE{Ref: &Ref{r.NS, r.Name}}, Optional: true})
	}
	return t
}

// Namespaces: cyclic references between namespaces through type chains (the case the generator handles: every member
// of the chain moves to conflictResolution), clashing type names inside such cycles (renamed with namespace prefixes),
// clashing names outside cycles, namespaces whose last components coincide (import aliases), "internal" namespaces,
// a record outside the cycle that refers into it, and a resource over a cyclic entity.
func Namespaces(root string) *Manifest {
	m := &Manifest{Family: "namespaces-cycles-clashes", Root: root, WellFormed: true}
	a, b, c := "org.alpha.model", "org.beta.model", "org.gamma.internal.deep"
	// mutual recursion across namespaces with clashing names: alpha.Node <-> beta.Node, beta.Node -> beta.Leaf
	m.Types = append(m.Types,
		recRefs(a, "Node", Ref{b, "Node"}),
		recRefs(b, "Node", Ref{a, "Node"}, Ref{b, "Leaf"}),
		recRefs(b, "Leaf"),
		// clashing names without any cycle, in packages that are both called "model"
		recRefs(a, "Thing"), recRefs(b, "Thing"),
		recRefs(c, "User", Ref{a, "Thing"}, Ref{b, "Thing"}, Ref{a, "Node"}),
		// a three-namespace ring: gamma.Ring -> alpha.Ring -> beta.Ring -> gamma.Ring (all named Ring)
		recRefs(c, "Ring", Ref{a, "Ring"}), recRefs(a, "Ring", Ref{b, "Ring"}), recRefs(b, "Ring", Ref{c, "Ring"}),
		&Type{Kind: KUnion, NS: a, Name: "NodeOrThing", Members: []Member{{R(a, "Node"), a + ".Node"}, {R(b, "Thing"), b + ".Thing"}}},
		&Type{Kind: KEnum, NS: "org.alpha._internal", Name: "Mode", Symbols: []string{"ON", "OFF"}},
		// a package cycle cyc.a.A -> cyc.b.B -> cyc.a.A2 whose last member uses a reference-free type of a third namespace
		// (enum cyc.c.Color, fixed cyc.c.Hash4, typeref cyc.c.Id), and a type of that third namespace that is on no cycle
		// and refers back into the cycle (cyc.c.Palette -> cyc.a.A): the leaves must move to conflictResolution with the
		// cycle, otherwise conflictResolution and cyc.c import each other
		recRefs("cyc.a", "A", Ref{"cyc.b", "B"}),
		recRefs("cyc.b", "B", Ref{"cyc.a", "A2"}),
		recRefs("cyc.a", "A2", Ref{"cyc.c", "Color"}, Ref{"cyc.c", "Hash4"}, Ref{"cyc.c", "Id"}, Ref{"cyc.c", "Plain"}),
		&Type{Kind: KEnum, NS: "cyc.c", Name: "Color", Symbols: []string{"RED", "BLUE"}},
		&Type{Kind: KFixed, NS: "cyc.c", Name: "Hash4", Size: 4},
		&Type{Kind: KTyperef, NS: "cyc.c", Name: "Id", Prim: "int64"},
		recRefs("cyc.c", "Plain"),
		recRefs("cyc.c", "Palette", Ref{"cyc.a", "A"}),
		recRefs("org.internal", "Cfg", Ref{"org.alpha._internal", "Mode"}),
	)
	eT := R(a, "Node")
	k := P("int64")
	m.Resources = append(m.Resources, &Resource{NS: a + ".nodes", Segs: []PathSeg{{Name: "nodes", KeyName: "nodeId", Key: &k}}, Schema: &eT,
		Methods: append(restMethods(eT, []string{"get", "create", "partial_update", "batch_get"}, false, 0),
			action("link", true, []Field{{Name: "to", Type: R(b, "Node")}}, tp(R(c, "Ring"))))})
	return m
}

// ---- witnesses of the refuted theorems (Props/C12.v); each is replayed on the real generator on every run

// WitnessOrder: x.A -> y.B -> x.A2 -> y.C.  Starting the cycle search at A flags {A,B,A2,C}; starting at B flags
// {B,A2,C} and A stays in x: the outcome depends on Go's map iteration order (registry_order_independent_refuted).
func WitnessOrder(root string) *Manifest {
	m := &Manifest{Family: "witness-order-dependent-flags", Root: root, WellFormed: true, Expect: "nondeterministic-registry"}
	m.Types = []*Type{recRefs("wx", "A", Ref{"wy", "B"}), recRefs("wy", "B", Ref{"wx", "A2"}), recRefs("wx", "A2", Ref{"wy", "C"}), recRefs("wy", "C")}
	m.PermIDs = []Ref{{"wx", "A"}, {"wy", "B"}, {"wx", "A2"}, {"wy", "C"}}
	return m
}

// WitnessPackageCycle: x.A -> y.B and y.B2 -> x.A2: the packages import each other but no chain of TYPE references
// leaves a package and returns to it, so nothing is flagged (package_graph_acyclic_refuted).
func WitnessPackageCycle(root string) *Manifest {
	m := &Manifest{Family: "witness-package-level-cycle", Root: root, WellFormed: true, Expect: "output-does-not-compile:import-cycle"}
	m.Types = []*Type{recRefs("px", "A", Ref{"py", "B"}), recRefs("py", "B"), recRefs("py", "B2", Ref{"px", "A2"}), recRefs("px", "A2")}
	return m
}

// WitnessCrossGroup: a.Foo <-> b.Foo are renamed AFoo / BFoo, and c.AFoo (same cycle, different conflict group) keeps
// its name: two types called AFoo in conflictResolution (no_duplicate_identifiers_refuted).
func WitnessCrossGroup(root string) *Manifest {
	m := &Manifest{Family: "witness-cross-group-rename-collision", Root: root, WellFormed: true, Expect: "duplicate-identifier"}
	m.Types = []*Type{recRefs("a", "Foo", Ref{"b", "Foo"}), recRefs("b", "Foo", Ref{"c", "AFoo"}), recRefs("c", "AFoo", Ref{"a", "Foo"})}
	return m
}

// WitnessRenameFails: four namespaces a.b.c, a.bC, x.c, y.b.c each defining Foo, all on one cycle: every attempt of
// resolveConflicts collides (C/BC/C/BC.., BC/ABC/XC/BC, ABC/ABC/..), so Finalize returns an error although every name
// is a legal Pegasus name (outside wf_manifest: full_names_distinct fails; registry_total_needs_distinct_full_names).
func WitnessRenameFails(root string) *Manifest {
	m := &Manifest{Family: "witness-rename-fails", Root: root, WellFormed: false, Expect: "generator-fails"}
	m.Types = []*Type{recRefs("a.b.c", "Foo", Ref{"a.bC", "Foo"}), recRefs("a.bC", "Foo", Ref{"x.c", "Foo"}),
		recRefs("x.c", "Foo", Ref{"y.b.c", "Foo"}), recRefs("y.b.c", "Foo", Ref{"a.b.c", "Foo"})}
	return m
}

// ---- seeded random members (thorough tier)

func randTE(r *hx.Rand, l *leaves, extra []TE, depth int) TE {
	if depth > 0 && r.Chance(35) {
		if r.Bool() {
			return Arr(randTE(r, l, extra, depth-1))
		}
		return MapOf(randTE(r, l, extra, depth-1))
	}
	els := append(l.elements(), l.unionN)
	els = append(els, extra...)
	return els[r.Intn(len(els))]
}

// Random: random records (random field types up to depth 3, positions, includes) and random resources over them.
func Random(root string, r *hx.Rand, k int) *Manifest {
	ns := fmt.Sprintf("com.ex.rnd%d", k)
	l := newLeaves(ns)
	m := &Manifest{Family: "random-schemas-resources", Root: root, WellFormed: true}
	m.Types = append(m.Types, l.types...)
	var recs []TE
	nrec := 2 + r.Intn(4)
	for i := 0; i < nrec; i++ {
		rec := &Type{Kind: KRecord, NS: ns, Name: fmt.Sprintf("R%d", i)}
		if i > 0 && r.Chance(40) {
			rec.Includes = []Ref{*recs[r.Intn(len(recs))].Ref}
		}
		nf := 1 + r.Intn(7)
		for j := 0; j < nf; j++ {
			t := randTE(r, l, recs, 3)
			f := Field{Name: fmt.Sprintf("f%d_%d", i, j), Type: t}
			switch r.Intn(3) {
			case 1:
				f.Optional = true
			case 2:
				if in := t.Inner(); in == nil || in.Name[0] != 'R' { // defaults for the random records themselves are not synthesised
					f.Default = sp(l.DefaultFor(t, r.Bool()))
				} else {
					f.Optional = true
				}
			}
			rec.Fields = append(rec.Fields, f)
		}
		m.Types = append(m.Types, rec)
		recs = append(recs, R(ns, rec.Name))
	}
	nres := 1 + r.Intn(3)
	keyChoices := []TE{P("int64"), P("string"), P("int32"), l.typerefs["int64"], l.enum}
	for i := 0; i < nres; i++ {
		eT := recs[r.Intn(len(recs))]
		name := fmt.Sprintf("res%d", i)
		res := &Resource{NS: ns + "." + name}
		switch r.Intn(4) {
		case 0: // simple
			res.Segs = []PathSeg{{Name: name}}
			res.Schema = &eT
			var names []string
			for _, n := range []string{"get", "update", "partial_update", "delete"} {
				if r.Bool() {
					names = append(names, n)
				}
			}
			res.Methods = restMethods(eT, names, true, r.Intn(6))
		case 1: // action set
			res.Segs = []PathSeg{{Name: name}}
		default:
			kt := keyChoices[r.Intn(len(keyChoices))]
			res.Segs = []PathSeg{{Name: name, KeyName: name + "Key", Key: &kt}}
			if r.Chance(30) {
				pk := keyChoices[r.Intn(len(keyChoices))]
				res.Segs = append([]PathSeg{{Name: "top" + name, KeyName: "top" + name + "Key", Key: &pk}}, res.Segs...)
				res.NS = ns + ".top" + name + "." + name
			}
			res.Schema = &eT
			var names []string
			for _, n := range restAll {
				if r.Chance(55) {
					names = append(names, n)
				}
			}
			res.Methods = restMethods(eT, names, false, r.Intn(6))
			nfind := r.Intn(3)
			for f := 0; f < nfind; f++ {
				var ps []Field
				for p := 0; p < r.Intn(3); p++ {
					ps = append(ps, Field{Name: fmt.Sprintf("p%d", p), Type: randTE(r, l, nil, 1), Optional: r.Bool()})
				}
				var md *TE
				if r.Chance(30) {
					md = tp(l.inner)
				}
				res.Methods = append(res.Methods, finder(fmt.Sprintf("find%d", f), eT, ps, r.Bool(), md))
			}
		}
		nact := r.Intn(3)
		if len(res.Methods) == 0 && nact == 0 {
			nact = 1
		}
		for a := 0; a < nact; a++ {
			var ps []Field
			for p := 0; p < r.Intn(3); p++ {
				ps = append(ps, Field{Name: fmt.Sprintf("a%d", p), Type: randTE(r, l, recs, 2), Optional: r.Bool()})
			}
			var ret *TE
			if r.Chance(60) {
				ret = tp(randTE(r, l, recs, 2))
			}
			onEntity := res.Schema != nil && res.Segs[len(res.Segs)-1].Key != nil && r.Bool()
			res.Methods = append(res.Methods, action(fmt.Sprintf("act%d", a), onEntity, ps, ret))
		}
		m.Resources = append(m.Resources, res)
	}
	return m
}

// RandomNamespaces: a random reference graph of 4-5 records over 2-3 namespaces (names drawn from a small pool so that
// clashes happen) plus an outside record referring to one of them.  Many members contain package-level cycles or
// order-dependent flags: those hit the known generator defects, the others must generate, compile and agree with the model.
func RandomNamespaces(root string, r *hx.Rand, k int) *Manifest {
	m := &Manifest{Family: "random-namespace-graph", Root: root, WellFormed: true}
	nss := []string{"g.one", "g.two", "g.three"}[:2+r.Intn(2)]
	names := []string{"Foo", "Bar", "Foo", "Baz", "Foo2"}
	n := 4 + r.Intn(2)
	var ids []Ref
	used := map[Ref]bool{}
	for len(ids) < n {
		id := Ref{nss[r.Intn(len(nss))], names[r.Intn(len(names))]}
		if !used[id] {
			used[id] = true
			ids = append(ids, id)
		}
	}
	for i, id := range ids {
		var refs []Ref
		nr := r.Intn(3)
		if nr == 2 && !r.Chance(40) {
			nr = 1
		}
		for j := 0; j < nr; j++ {
			t := ids[r.Intn(len(ids))]
			if t != id || r.Chance(20) {
				dup := false
				for _, x := range refs {
					dup = dup || x == t
				}
				if !dup {
					refs = append(refs, t)
				}
			}
		}
		_ = i
		m.Types = append(m.Types, recRefs(id.NS, id.Name, refs...))
	}
	m.PermIDs = ids
	m.Types = append(m.Types, recRefs("g.outside", "Watcher", ids[r.Intn(len(ids))]))
	return m
}

// ---- custom typerefs (two-step generation)

func customGo(pkg, name, prim, goPrim, field, hashAdd string) string {
	return "// hand-written: makes the typeref " + name + " custom (found by cmd.LocateCustomTyperefs)\npackage " + pkg + "\n\n" +
		"import \"github.com/PapaCharlie/go-restli/v2/fnv1a\"\n\n" +
		"type " + name + " struct{ " + field + " " + goPrim + " }\n\n" +
		"func Marshal" + name + "(v " + name + ") (" + goPrim + ", error) { return v." + field + ", nil }\n\n" +
		"func Unmarshal" + name + "(p " + goPrim + ") (" + name + ", error) { return " + name + "{" + field + ": p}, nil }\n\n" +
		"func Equals" + name + "(l, r " + name + ") bool { return l." + field + " == r." + field + " }\n\n" +
		"func ComputeHash" + name + "(v " + name + ") fnv1a.Hash {\n\th := fnv1a.NewHash()\n\th." + hashAdd + "(v." + field + ")\n\treturn h\n}\n"
}

// CustomTyperefs: an upstream project whose typerefs Urn (string), Millis (int64) and Temperature (float64) are made
// custom by hand-written Go files placed in the output directory before generation, used as field type (required,
// optional, defaulted), array item, map value, union member, finder / action parameter and collection key; and a
// downstream project that is generated against the manifest the generator EMITTED for upstream and uses the same types
// in the same positions.
func CustomTyperefs(root string) *Manifest {
	ns := "com.ex.weather"
	m := &Manifest{Family: "custom-typerefs-two-step", Root: root, WellFormed: true, HandWritten: map[string]string{}}
	type ct struct{ name, prim, goPrim, field, add, def string }
	cts := []ct{{"Urn", "string", "string", "Value", "AddString", `"urn:li:x:1"`}, {"Millis", "int64", "int64", "N", "AddInt64", "1500"},
		{"Temperature", "float64", "float64", "Kelvin", "AddFloat64", "273.15"}}
	for _, c := range cts {
		m.Types = append(m.Types, &Type{Kind: KTyperef, NS: ns, Name: c.name, Prim: c.prim})
		m.Custom = append(m.Custom, Ref{ns, c.name})
		m.HandWritten["com/ex/weather/"+c.name+".go"] = customGo("weather", c.name, c.prim, c.goPrim, c.field, c.add)
	}
	user := func(ns, name string) []*Type {
		rec := &Type{Kind: KRecord, NS: ns, Name: name}
		for _, c := range cts {
			t := R("com.ex.weather", c.name)
			l := strings.ToLower(c.name)
			rec.Fields = append(rec.Fields, Field{Name: l, Type: t}, Field{Name: l + "Opt", Type: t, Optional: true},
				Field{Name: l + "Def", Type: t, Default: sp(c.def)}, Field{Name: l + "s", Type: Arr(t)},
				Field{Name: l + "ByName", Type: MapOf(t), Optional: true}, Field{Name: l + "Nested", Type: MapOf(Arr(t)), Default: sp("{}")})
		}
		u := &Type{Kind: KUnion, NS: ns, Name: name + "Choice", Members: []Member{
			{R("com.ex.weather", "Urn"), "com.ex.weather.Urn"}, {R("com.ex.weather", "Millis"), "com.ex.weather.Millis"}, {P("string"), "string"}}}
		rec.Fields = append(rec.Fields, Field{Name: "choice", Type: R(ns, name+"Choice"), Optional: true})
		return []*Type{rec, u}
	}
	resource := func(ns, name string, entity TE) *Resource {
		k := R("com.ex.weather", "Urn")
		return &Resource{NS: ns + "." + name, Segs: []PathSeg{{Name: name, KeyName: name + "Id", Key: &k}}, Schema: &entity,
			Methods: append(restMethods(entity, []string{"get", "create", "update", "batch_get", "batch_update", "delete"}, false, 1),
				finder("since", entity, []Field{{Name: "since", Type: R("com.ex.weather", "Millis")}, {Name: "temps", Type: Arr(R("com.ex.weather", "Temperature")), Optional: true}}, false, nil),
				action("warm", true, []Field{{Name: "by", Type: R("com.ex.weather", "Temperature")}}, tp(R("com.ex.weather", "Temperature"))))}
	}
	m.Types = append(m.Types, user(ns, "Reading")...)
	m.Resources = append(m.Resources, resource(ns, "readings", R(ns, "Reading")))
	d := &Manifest{Family: "custom-typerefs-two-step:downstream", WellFormed: true}
	d.Types = append(d.Types, user("com.ex.report", "Report")...)
	d.Types = append(d.Types, recRefs("com.ex.report", "Summary", Ref{ns, "Reading"}, Ref{ns, "Urn"}))
	d.Resources = append(d.Resources, resource("com.ex.report", "reports", R("com.ex.report", "Report")))
	m.Downstream = d
	return m
}
