// Package mgen: a seeded grammar of go-restli v2 manifests (schemas + resources) and helpers to run the REAL generator on
// them in fresh processes inside a scratch Go module.  Built for C12, meant to be reused by every property that is
// quantified over schemas / resource specifications (C01, C06, C07, C10, C13 ... need generated bindings).
//
// API summary
//
//	m := mgen.Positions(root)            // a family member; see families.go (Positions, IncludesUnions, Collections,
//	                                     // SimpleActionsSubs, Namespaces, Witness*, Random)
//	m.JSON()                             // the manifest in the generator's JSON input format
//	ws, _ := mgen.NewWorkspace(repo)     // scratch Go module (replace => <repo>/v2, go.sum copied), rungen located/built by caller
//	res := ws.Generate(rungenExe, m, dir, registryOnly)   // one fresh generator process; res.Status, res.Registry
//	ws.Go(dir, "vet", "./...")           // go tool inside the scratch module with the offline environment
//
// A manifest's PackageRoot must be the import path of its output directory: use ws.RootFor(name) / ws.DirFor(name).
package mgen

import (
	"encoding/json"
	"sort"
)

// Ref names a schema type.
type Ref struct{ NS, Name string }

func (r Ref) Full() string { return r.NS + "." + r.Name }

// TE is a type expression: exactly one of Prim, Ref, Array, Map.
type TE struct {
	Prim  string
	Ref   *Ref
	Array *TE
	Map   *TE
}

func P(prim string) TE     { return TE{Prim: prim} }
func R(ns, name string) TE { return TE{Ref: &Ref{ns, name}} }
func Arr(t TE) TE          { return TE{Array: &t} }
func MapOf(t TE) TE        { return TE{Map: &t} }

func (t TE) json() map[string]interface{} {
	switch {
	case t.Prim != "":
		return map[string]interface{}{"primitive": t.Prim}
	case t.Ref != nil:
		return map[string]interface{}{"reference": map[string]string{"name": t.Ref.Name, "namespace": t.Ref.NS}}
	case t.Array != nil:
		return map[string]interface{}{"array": t.Array.json()}
	default:
		return map[string]interface{}{"map": t.Map.json()}
	}
}

// Inner returns the named type a type expression bottoms out in, if any.
func (t TE) Inner() *Ref {
	switch {
	case t.Ref != nil:
		return t.Ref
	case t.Array != nil:
		return t.Array.Inner()
	case t.Map != nil:
		return t.Map.Inner()
	}
	return nil
}

func (t TE) String() string {
	switch {
	case t.Prim != "":
		return t.Prim
	case t.Ref != nil:
		return t.Ref.Full()
	case t.Array != nil:
		return "array<" + t.Array.String() + ">"
	default:
		return "map<" + t.Map.String() + ">"
	}
}

type Field struct {
	Name     string
	Type     TE
	Optional bool
	Default  *string // raw JSON
}

type Member struct {
	Type  TE
	Alias string
}

// Type kinds
const (
	KRecord     = "record"
	KEnum       = "enum"
	KFixed      = "fixed"
	KUnion      = "standaloneUnion"
	KTyperef    = "typeref"
	KComplexKey = "complexKey"
)

type Type struct {
	Kind     string
	NS, Name string
	Fields   []Field  // record
	Includes []Ref    // record
	Symbols  []string // enum
	Size     int      // fixed
	HasNull  bool     // union
	Members  []Member // union
	Prim     string   // typeref
	Key      Ref      // complexKey
	Params   Ref      // complexKey
}

func (t *Type) Ref() Ref { return Ref{t.NS, t.Name} }

// Refs mirrors ComplexType.ReferencedTypes() (used only for statistics; the model's graph comes from the real code).
func (t *Type) Refs() []Ref {
	seen := map[Ref]bool{}
	var out []Ref
	add := func(r *Ref) {
		if r != nil && !seen[*r] {
			seen[*r] = true
			out = append(out, *r)
		}
	}
	switch t.Kind {
	case KRecord:
		for i := range t.Includes {
			add(&t.Includes[i])
		}
		for _, f := range t.Fields {
			add(f.Type.Inner())
		}
	case KUnion:
		for _, m := range t.Members {
			add(m.Type.Inner())
		}
	case KComplexKey:
		add(&t.Key)
		add(&t.Params)
	}
	return out
}

func fieldsJSON(fs []Field) []interface{} {
	out := []interface{}{}
	for _, f := range fs {
		m := map[string]interface{}{"name": f.Name, "doc": "", "type": f.Type.json(), "isOptional": f.Optional}
		if f.Default != nil {
			m["defaultValue"] = *f.Default
		}
		out = append(out, m)
	}
	return out
}

func (t *Type) json() map[string]interface{} {
	named := map[string]interface{}{"name": t.Name, "namespace": t.NS, "sourceFile": t.NS + "/" + t.Name + ".pdl", "doc": t.Kind + " " + t.Name}
	switch t.Kind {
	case KRecord:
		inc := []interface{}{}
		for _, i := range t.Includes {
			inc = append(inc, map[string]string{"name": i.Name, "namespace": i.NS})
		}
		named["includes"] = inc
		named["fields"] = fieldsJSON(t.Fields)
	case KEnum:
		named["Symbols"] = t.Symbols
		docs := map[string]string{}
		for i, s := range t.Symbols {
			if i%2 == 0 {
				docs[s] = "symbol " + s
			}
		}
		named["SymbolToDoc"] = docs
	case KFixed:
		named["Size"] = t.Size
	case KUnion:
		ms := []interface{}{}
		for _, m := range t.Members {
			ms = append(ms, map[string]interface{}{"Type": m.Type.json(), "Alias": m.Alias})
		}
		named["Union"] = map[string]interface{}{"HasNull": t.HasNull, "Members": ms}
	case KTyperef:
		named["type"] = t.Prim
		named["isCustom"] = false
	case KComplexKey:
		named["Key"] = map[string]string{"name": t.Key.Name, "namespace": t.Key.NS}
		named["Params"] = map[string]string{"name": t.Params.Name, "namespace": t.Params.NS}
	}
	return map[string]interface{}{t.Kind: named}
}

type PathSeg struct {
	Name    string
	KeyName string
	Key     *TE // nil: no path key (simple resource / action set)
}

const (
	MRest   = "REST_METHOD"
	MFinder = "FINDER"
	MAction = "ACTION"
)

type Method struct {
	Kind         string
	Name         string
	OnEntity     bool
	Params       []Field
	Paging       bool
	Return       *TE
	Metadata     *TE
	ReturnEntity bool
}

type Resource struct {
	NS         string // namespace of the resource = schema namespace + "." + resource name (+ sub-resource names)
	Segs       []PathSeg
	Schema     *TE
	ReadOnly   []string
	CreateOnly []string
	Methods    []Method
}

type Manifest struct {
	Family    string // which family / gadget produced it (for the distribution and for replays)
	Root      string
	Types     []*Type
	Resources []*Resource
	// Deps: dependencyDataTypes - copies of the foreign types this project mentions (the spec parser lists every
	// referenced non-input type there; the generator registers them leniently AFTER the input types of ALL manifests and
	// writes them out again in the manifest it emits)
	Deps []*Type
	// identifiers whose relative map-iteration order the model explores exhaustively (cycle gadgets; at most 5)
	PermIDs []Ref
	// WellFormed: the manifest is inside wf_manifest (all grammar families are; only deliberately broken ones are not)
	WellFormed bool
	// Expect names the known generator defect this manifest is a witness of ("" for ordinary members)
	Expect string
	// HandWritten: files (path relative to the output directory -> content) that must be in the output directory BEFORE
	// generation: the hand-written <Type>.go that makes a typeref custom (cmd.LocateCustomTyperefs).  They are not
	// generated files, so cleaning must leave them alone.
	HandWritten map[string]string
	// Custom: the typerefs made custom by HandWritten (the emitted manifest must record isCustom for them)
	Custom []Ref
	// Downstream: a second project that is generated against THIS project's emitted manifest (two-step generation)
	Downstream *Manifest
}

func (m *Manifest) JSON() []byte {
	types := []interface{}{}
	for _, t := range m.Types {
		types = append(types, t.json())
	}
	res := []interface{}{}
	for _, r := range m.Resources {
		segs := []interface{}{}
		for _, s := range r.Segs {
			seg := map[string]interface{}{"resourceName": s.Name, "pathKey": nil}
			if s.Key != nil {
				seg["pathKey"] = map[string]interface{}{"name": s.KeyName, "type": s.Key.json()}
			}
			segs = append(segs, seg)
		}
		ms := []interface{}{}
		for _, me := range r.Methods {
			mm := map[string]interface{}{"methodType": me.Kind, "name": me.Name, "doc": "", "onEntity": me.OnEntity,
				"params": fieldsJSON(me.Params), "isPagingSupported": me.Paging, "returnEntity": me.ReturnEntity}
			if me.Return != nil {
				mm["return"] = me.Return.json()
			}
			if me.Metadata != nil {
				mm["metadata"] = me.Metadata.json()
			}
			ms = append(ms, mm)
		}
		rm := map[string]interface{}{"namespace": r.NS, "doc": "resource " + r.NS, "sourceFile": r.NS + ".restspec.json",
			"resourcePathSegments": segs, "methods": ms, "readOnlyFields": nonNil(r.ReadOnly), "createOnlyFields": nonNil(r.CreateOnly)}
		if r.Schema != nil {
			rm["resourceSchema"] = r.Schema.json()
		}
		res = append(res, rm)
	}
	deps := []interface{}{}
	for _, t := range m.Deps {
		deps = append(deps, t.json())
	}
	b, err := json.MarshalIndent(map[string]interface{}{"packageRoot": m.Root, "inputDataTypes": types,
		"dependencyDataTypes": deps, "resources": res}, "", " ")
	if err != nil {
		panic(err)
	}
	return b
}

func nonNil(l []string) []string {
	if l == nil {
		return []string{}
	}
	return l
}

// Stats: constructor-in-position counts, for the measured input distribution.
func (m *Manifest) Stats(count func(key string, n int)) {
	var shape func(t TE) string
	shape = func(t TE) string {
		switch {
		case t.Prim != "":
			return t.Prim
		case t.Ref != nil:
			for _, x := range m.Types {
				if x.Ref() == *t.Ref {
					if x.Kind == KTyperef {
						return "typeref:" + x.Prim
					}
					return x.Kind
				}
			}
			return "ref:external"
		case t.Array != nil:
			return "array<" + shape(*t.Array) + ">"
		default:
			return "map<" + shape(*t.Map) + ">"
		}
	}
	for _, t := range m.Types {
		count("type:"+t.Kind, 1)
		for _, f := range t.Fields {
			pos := "required"
			if f.Default != nil {
				pos = "default"
			} else if f.Optional {
				pos = "optional"
			}
			count("field:"+pos+":"+shape(f.Type), 1)
		}
		if len(t.Includes) > 0 {
			count("record:includes", len(t.Includes))
		}
		for _, mm := range t.Members {
			count("union-member:"+shape(mm.Type), 1)
		}
	}
	for _, r := range m.Resources {
		kind := "actionset"
		last := r.Segs[len(r.Segs)-1]
		if r.Schema != nil {
			if last.Key != nil {
				kind = "collection:key=" + shape(*last.Key)
			} else {
				kind = "simple"
			}
		}
		if len(r.Segs) > 1 {
			kind = "sub:" + kind
		}
		count("resource:"+kind, 1)
		for _, me := range r.Methods {
			k := "method:" + me.Kind + ":" + me.Name
			if me.Kind != MRest {
				k = "method:" + me.Kind
				if me.OnEntity {
					k += ":onEntity"
				}
				if me.Metadata != nil {
					k += ":metadata"
				}
				if me.Kind == MAction && me.Return != nil {
					k += ":returns:" + shape(*me.Return)
				}
			}
			if me.Paging {
				k += ":paging"
			}
			if me.ReturnEntity {
				k += ":returnEntity"
			}
			if len(me.Params) > 0 {
				k += ":params"
			}
			count(k, 1)
			for _, p := range me.Params {
				pos := "required"
				if p.Optional {
					pos = "optional"
				}
				count("param:"+pos+":"+shape(p.Type), 1)
			}
		}
	}
	ns := map[string]bool{}
	for _, t := range m.Types {
		ns[t.NS] = true
	}
	count("namespaces", len(ns))
}

func sortedKeys(m map[string]bool) []string {
	var l []string
	for k := range m {
		l = append(l, k)
	}
	sort.Strings(l)
	return l
}
