package mgen

import (
	"bytes"
	"encoding/json"
	"fmt"
	"os"
	"os/exec"
	"path/filepath"
	"strings"
)

// Workspace: a scratch Go module (outside /repo and /verif) whose go.mod replaces go-restli/v2 by <repo>/v2.
type Workspace struct {
	Dir    string // module directory; generated bindings go to Dir/<name>
	Repo   string
	Module string
}

const ModulePath = "scratch.test/m"

func RepoPath() string {
	if r := os.Getenv("VERIF_REPO"); r != "" {
		return r
	}
	return "/repo"
}

func NewWorkspace(repo string) (*Workspace, error) {
	d, err := os.MkdirTemp("", "verif-mgen-")
	if err != nil {
		return nil, err
	}
	w := &Workspace{Dir: d, Repo: repo, Module: ModulePath}
	gomod := "module " + ModulePath + "\n\ngo 1.18\n\nrequire github.com/PapaCharlie/go-restli/v2 v2.0.0\n\n" +
		"replace github.com/PapaCharlie/go-restli/v2 => " + repo + "/v2\n"
	if err := os.WriteFile(filepath.Join(d, "go.mod"), []byte(gomod), 0o644); err != nil {
		return nil, err
	}
	sum, err := os.ReadFile(filepath.Join(repo, "v2", "go.sum"))
	if err != nil {
		return nil, err
	}
	if err := os.WriteFile(filepath.Join(d, "go.sum"), sum, 0o644); err != nil {
		return nil, err
	}
	return w, nil
}

func (w *Workspace) Close()                     { chmodAll(w.Dir); os.RemoveAll(w.Dir) }
func (w *Workspace) RootFor(name string) string { return w.Module + "/" + name }
func (w *Workspace) DirFor(name string) string  { return filepath.Join(w.Dir, name) }

// generated files are written read-only (0444); make directories removable
func chmodAll(dir string) {
	filepath.Walk(dir, func(p string, fi os.FileInfo, err error) error {
		if err == nil && fi.IsDir() {
			os.Chmod(p, 0o755)
		}
		return nil
	})
}

func GoEnv() []string {
	env := os.Environ()
	return append(env, "GOFLAGS=-mod=mod", "GOPROXY=off", "GOSUMDB=off", "GOTOOLCHAIN=local", "GOWORK=off", "CGO_ENABLED=0")
}

// Go runs the go tool inside the scratch module; returns combined output and whether it exited 0.
func (w *Workspace) Go(args ...string) (string, bool) {
	c := exec.Command("go", args...)
	c.Dir = w.Dir
	c.Env = GoEnv()
	out, err := c.CombinedOutput()
	return string(out), err == nil
}

// DependencyManifest: the manifest every generated package set depends on (restli common types), from the current tree.
func (w *Workspace) DependencyManifest() string {
	return filepath.Join(w.Repo, "v2", "restlidata", "generated", "go-restli-manifest.gr.json")
}

type RegEntry struct {
	Name      string   `json:"name"`
	Namespace string   `json:"namespace"`
	Root      string   `json:"root"`
	Refs      []string `json:"refs"`
	Package   string   `json:"package"`
	TypeName  string   `json:"typeName"`
}

type GenResult struct {
	Exit     int
	Status   string     `json:"status"`
	Detail   string     `json:"detail"`
	Registry []RegEntry `json:"registry"`
	Initial  []RegEntry `json:"initial"` // the registry's native content, before the manifests were registered
	Stderr   string
}

// RunGen: ONE fresh generator process (cmd/rungen).  deps are registered first.  registryOnly: only
// RegisterManifests+Finalize, nothing written.
func RunGen(rungen, manifestPath, outDir string, deps []string, registryOnly bool) GenResult {
	args := []string{"--manifest", manifestPath}
	if registryOnly {
		args = append(args, "--registry-only")
	} else {
		args = append(args, "--out", outDir)
	}
	for _, d := range deps {
		args = append(args, "--dep", d)
	}
	c := exec.Command(rungen, args...)
	var so, se bytes.Buffer
	c.Stdout, c.Stderr = &so, &se
	err := c.Run()
	res := GenResult{Exit: 0, Stderr: tail(se.String(), 2000)}
	if err != nil {
		if ee, ok := err.(*exec.ExitError); ok {
			res.Exit = ee.ExitCode()
		} else {
			res.Exit = -1
			res.Status = "spawn-failed"
			res.Detail = err.Error()
			return res
		}
	}
	lines := strings.Split(strings.TrimSpace(so.String()), "\n")
	if e := json.Unmarshal([]byte(lines[len(lines)-1]), &res); e != nil {
		res.Status = "crashed" // killed by a runtime fatal error (not a recoverable panic): no JSON line
		res.Detail = fmt.Sprintf("exit %d: %s", res.Exit, tail(se.String(), 400))
	}
	return res
}

func tail(s string, n int) string {
	if len(s) > n {
		return s[len(s)-n:]
	}
	return s
}
