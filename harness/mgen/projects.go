package mgen

import "sort"

// ---- the three name spaces of a resource

// MethodNameSpaces: Rest.li keeps finders (?q=name), actions (?action=name) and the fixed REST methods in three separate
// name spaces, so one wire name may be used once in each of them on the same resource: a finder and an action both called
// "search", actions called "get" / "create" / "delete" / "batch_get" next to the REST methods of that name, a finder and
// an action called "resource" (the name of the file that holds the resource's own declarations), finder / action named
// after the resource itself.  Every method must survive generation: one client method, one interface entry and one
// parameter struct per method, whatever the files are called.
func MethodNameSpaces(root string) *Manifest {
	ns := "com.ex.spaces"
	l := newLeaves(ns)
	m := &Manifest{Family: "method-name-spaces", Root: root, WellFormed: true}
	m.Types = append(m.Types, l.types...)
	cart := &Type{Kind: KRecord, NS: ns, Name: "Cart", Fields: []Field{
		{Name: "owner", Type: P("string")}, {Name: "items", Type: Arr(P("string")), Default: sp("[]")}, {Name: "inner", Type: l.inner, Optional: true}}}
	m.Types = append(m.Types, cart)
	cT := R(ns, "Cart")
	k64, kStr := P("int64"), P("string")
	str := func(n string) Field { return Field{Name: n, Type: P("string")} }
	optInt := func(n string) Field { return Field{Name: n, Type: P("int32"), Optional: true} }
	carts := &Resource{NS: ns + ".carts", Segs: []PathSeg{{Name: "carts", KeyName: "cartId", Key: &k64}}, Schema: &cT}
	carts.Methods = restMethods(cT, restAll, false, 0)
	carts.Methods = append(carts.Methods,
		// finder + action of the same name (with different parameters)
		finder("search", cT, []Field{str("owner")}, false, nil),
		action("search", false, []Field{str("text"), optInt("limit")}, tp(Arr(cT))),
		// finders / actions named like REST methods the resource implements
		finder("get", cT, nil, false, nil),
		action("get", true, nil, &cT),
		action("create", false, []Field{str("owner")}, tp(P("int64"))),
		action("delete", true, nil, nil),
		action("update", true, []Field{{Name: "patch", Type: MapOf(P("string"))}}, nil),
		action("batch_get", false, []Field{{Name: "ids", Type: Arr(P("int64"))}}, tp(MapOf(cT))),
		finder("get_all", cT, []Field{optInt("page")}, true, nil),
		// the name of the resource's own file, and of the resource
		finder("resource", cT, []Field{optInt("x")}, false, nil),
		action("resource", false, nil, tp(P("string"))),
		finder("carts", cT, nil, false, nil),
		action("carts", false, nil, nil),
		// a finder and an action whose names differ from each other only by the other kind's affix
		finder("all", cT, nil, true, nil),
		action("all", false, nil, tp(P("int32"))),
		action("purge", false, nil, nil),
	)
	settings := &Resource{NS: ns + ".settings", Segs: []PathSeg{{Name: "settings"}}, Schema: &cT,
		Methods: append(restMethods(cT, []string{"get", "update", "partial_update", "delete"}, true, 1),
			action("get", false, nil, &cT), action("update", false, []Field{str("owner")}, nil), action("delete", false, nil, tp(P("bool"))),
			action("partial_update", false, []Field{optInt("n")}, nil))}
	ops := &Resource{NS: ns + ".ops", Segs: []PathSeg{{Name: "ops"}},
		Methods: []Method{action("action", false, nil, nil), action("finder", false, []Field{str("q")}, tp(P("string"))),
			action("get", false, nil, tp(P("int32"))), action("create", false, []Field{str("name")}, &cT), action("search", false, nil, nil),
			action("ops", false, nil, nil), action("client", false, nil, nil)}}
	items := &Resource{NS: ns + ".carts.items", Segs: []PathSeg{{Name: "carts", KeyName: "cartId", Key: &k64}, {Name: "items", KeyName: "itemId", Key: &kStr}},
		Schema: &cT, Methods: append(restMethods(cT, []string{"get", "create", "batch_get", "get_all"}, false, 1),
			finder("items", cT, []Field{str("like")}, true, nil), action("items", true, nil, nil),
			finder("create", cT, nil, false, nil), action("get_all", false, nil, tp(Arr(P("string")))))}
	m.Resources = append(m.Resources, carts, settings, ops, items)
	return m
}

// WitnessAffixCollision: the finder name space is mapped to Go with a prefix (FindBy<Name>), the action name space with a
// suffix (<Name>Action): the finder "searchAction" and the action "findBySearch" of one resource are both FindBySearchAction
// (and both findBySearchAction.gr.go).  Legal Rest.li, if far-fetched.
func WitnessAffixCollision(root string) *Manifest {
	ns := "com.ex.affix"
	m := &Manifest{Family: "witness-finder-action-affix-collision", Root: root, WellFormed: true, Expect: "missing-method-declaration:go-name-collision"}
	m.Types = []*Type{{Kind: KRecord, NS: ns, Name: "Doc", Fields: []Field{{Name: "title", Type: P("string")}}}}
	dT := R(ns, "Doc")
	k := P("int64")
	m.Resources = []*Resource{{NS: ns + ".docs", Segs: []PathSeg{{Name: "docs", KeyName: "docId", Key: &k}}, Schema: &dT,
		Methods: append(restMethods(dT, []string{"get"}, false, 1),
			finder("searchAction", dT, []Field{{Name: "q", Type: P("string")}}, false, nil),
			action("findBySearch", false, []Field{{Name: "text", Type: P("string")}}, tp(P("int32"))))}}
	return m
}

// ---- several projects

// ProjectSet: projects that are generated one after the other, each against the manifests the generator EMITTED for the
// projects generated before it.  Projects[i].Deps carries copies of every foreign type project i mentions, directly or
// through other foreign types (what the spec parser puts into dependencyDataTypes).  Every type has exactly one owner
// (the project that lists it in inputDataTypes); the owner's package root is where it must be generated, in whatever
// order the manifests are read.
type ProjectSet struct {
	Family   string
	Names    []string // directory / package-root names, one per project
	Projects []*Manifest
}

// fillDeps: for project k, the transitive closure of the foreign types its input types and resources mention
func (ps *ProjectSet) fillDeps() {
	owner := map[Ref]*Type{}
	for _, p := range ps.Projects {
		for _, t := range p.Types {
			owner[t.Ref()] = t
		}
	}
	for _, p := range ps.Projects {
		own := map[Ref]bool{}
		for _, t := range p.Types {
			own[t.Ref()] = true
		}
		seen := map[Ref]bool{}
		var order []Ref
		var visit func(r Ref)
		visit = func(r Ref) {
			if own[r] || seen[r] {
				return
			}
			t, ok := owner[r]
			if !ok {
				return // a type of the runtime's own manifest (restli common): not copied
			}
			seen[r] = true
			order = append(order, r)
			for _, c := range t.Refs() {
				visit(c)
			}
		}
		for _, t := range p.Types {
			for _, c := range t.Refs() {
				visit(c)
			}
		}
		for _, r := range p.Resources {
			for _, te := range resourceTEs(r) {
				if in := te.Inner(); in != nil {
					visit(*in)
				}
			}
		}
		sort.Slice(order, func(i, j int) bool { return order[i].Full() < order[j].Full() })
		p.Deps = nil
		for _, r := range order {
			cp := *owner[r]
			p.Deps = append(p.Deps, &cp)
		}
	}
}

func resourceTEs(r *Resource) []TE {
	var out []TE
	if r.Schema != nil {
		out = append(out, *r.Schema)
	}
	for _, s := range r.Segs {
		if s.Key != nil {
			out = append(out, *s.Key)
		}
	}
	for _, me := range r.Methods {
		for _, p := range me.Params {
			out = append(out, p.Type)
		}
		if me.Return != nil {
			out = append(out, *me.Return)
		}
		if me.Metadata != nil {
			out = append(out, *me.Metadata)
		}
	}
	return out
}

// Projects: a library (beta) that owns the money types; two projects that use them (alpha: records, a union and a
// resource; gamma: a record); and an application that uses all three.  alpha's, gamma's and app's manifests carry copies
// of the types they mention.  roots(i) gives the package root of project i.
func Projects(roots func(name string) string) *ProjectSet {
	ps := &ProjectSet{Family: "multi-project-dependency-copies", Names: []string{"beta", "alpha", "gamma", "app"}}
	nb, na, ng, np := "org.beta.money", "org.alpha.shop", "org.gamma.tax", "org.app.orders"
	beta := &Manifest{Family: ps.Family + ":beta", Root: roots("beta"), WellFormed: true}
	beta.Types = []*Type{
		{Kind: KEnum, NS: nb, Name: "Currency", Symbols: []string{"EUR", "USD", "CHF"}},
		{Kind: KTyperef, NS: nb, Name: "Cents", Prim: "int64"},
		{Kind: KFixed, NS: nb, Name: "Iban", Size: 4},
		{Kind: KRecord, NS: nb, Name: "Money", Fields: []Field{{Name: "amount", Type: R(nb, "Cents")}, {Name: "currency", Type: R(nb, "Currency"), Default: sp(`"EUR"`)}}},
		{Kind: KRecord, NS: nb, Name: "Wallet", Fields: []Field{{Name: "items", Type: Arr(R(nb, "Money"))}, {Name: "account", Type: R(nb, "Iban"), Optional: true}}},
	}
	alpha := &Manifest{Family: ps.Family + ":alpha", Root: roots("alpha"), WellFormed: true}
	alpha.Types = []*Type{
		{Kind: KRecord, NS: na, Name: "Line", Fields: []Field{{Name: "price", Type: R(nb, "Money")}, {Name: "qty", Type: P("int32"), Default: sp("1")}}},
		{Kind: KRecord, NS: na, Name: "Cart", Fields: []Field{{Name: "total", Type: R(nb, "Money"), Optional: true}, {Name: "lines", Type: Arr(R(na, "Line"))},
			{Name: "byCurrency", Type: MapOf(R(nb, "Money")), Optional: true}}},
		{Kind: KUnion, NS: na, Name: "Price", Members: []Member{{R(nb, "Money"), nb + ".Money"}, {R(nb, "Cents"), nb + ".Cents"}, {P("string"), "string"}}},
	}
	k64 := P("int64")
	cartT := R(na, "Cart")
	alpha.Resources = []*Resource{{NS: na + ".carts", Segs: []PathSeg{{Name: "carts", KeyName: "cartId", Key: &k64}}, Schema: &cartT,
		Methods: append(restMethods(cartT, []string{"get", "create", "batch_get"}, false, 1),
			finder("byCurrency", cartT, []Field{{Name: "currency", Type: R(nb, "Currency")}}, false, nil),
			action("total", true, []Field{{Name: "tip", Type: R(nb, "Money"), Optional: true}}, tp(R(nb, "Money"))))}}
	gamma := &Manifest{Family: ps.Family + ":gamma", Root: roots("gamma"), WellFormed: true}
	gamma.Types = []*Type{
		{Kind: KRecord, NS: ng, Name: "Rate", Fields: []Field{{Name: "base", Type: R(nb, "Money")}, {Name: "percent", Type: P("float64")}}},
		{Kind: KRecord, NS: ng, Name: "Table", Fields: []Field{{Name: "rates", Type: MapOf(R(ng, "Rate"))}, {Name: "wallet", Type: R(nb, "Wallet"), Optional: true}}},
	}
	app := &Manifest{Family: ps.Family + ":app", Root: roots("app"), WellFormed: true}
	app.Types = []*Type{
		{Kind: KRecord, NS: np, Name: "Order", Fields: []Field{{Name: "cart", Type: R(na, "Cart")}, {Name: "tax", Type: R(ng, "Rate"), Optional: true},
			{Name: "paid", Type: R(nb, "Money"), Optional: true}, {Name: "price", Type: R(na, "Price"), Optional: true}}},
	}
	orderT := R(np, "Order")
	kStr := P("string")
	app.Resources = []*Resource{{NS: np + ".orders", Segs: []PathSeg{{Name: "orders", KeyName: "orderId", Key: &kStr}}, Schema: &orderT,
		Methods: append(restMethods(orderT, []string{"get", "create", "update"}, false, 0),
			action("refund", true, []Field{{Name: "amount", Type: R(nb, "Money")}}, tp(R(ng, "Table"))))}}
	ps.Projects = []*Manifest{beta, alpha, gamma, app}
	ps.fillDeps()
	return ps
}
