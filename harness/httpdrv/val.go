package main

import (
	"fmt"
	"math"
	"reflect"
	"sort"
	"strconv"
	"strings"

	"verifgen/hx"
)

// Abstract value (mirrors Coq's Codec.Schema.value)
type Val struct {
	K       string   `json:"k"` // int long float double bool str bytes enum fixed rec union arr map
	Z       int64    `json:"z,omitempty"`
	Bits    uint64   `json:"bits,omitempty"`
	B       bool     `json:"b,omitempty"`
	S       string   `json:"-"`
	SHex    string   `json:"s,omitempty"`   // S printed for JSON (quoted Go string)
	NilColl bool     `json:"nil,omitempty"` // bytes/arr/map held as nil rather than empty (same abstract value)
	Incs    []*Val   `json:"incs,omitempty"`
	Fields  []*Val   `json:"fields,omitempty"` // nil entry = None
	Items   []*Val   `json:"items,omitempty"`
	Keys    []string `json:"-"`
	KeysQ   []string `json:"keys,omitempty"`
}

func (v *Val) fixJSON() *Val {
	if v == nil {
		return nil
	}
	v.SHex = ""
	if v.K == "str" || v.K == "bytes" || v.K == "fixed" {
		v.SHex = strconv.Quote(v.S)
	}
	v.KeysQ = nil
	for _, k := range v.Keys {
		v.KeysQ = append(v.KeysQ, strconv.Quote(k))
	}
	for _, x := range v.Incs {
		x.fixJSON()
	}
	for _, x := range v.Fields {
		x.fixJSON()
	}
	for _, x := range v.Items {
		x.fixJSON()
	}
	return v
}

// ---- Coq term
func (v *Val) Coq() string {
	switch v.K {
	case "int":
		return fmt.Sprintf("(VInt (%d)%%Z)", v.Z)
	case "long":
		return fmt.Sprintf("(VLong (%d)%%Z)", v.Z)
	case "float":
		return fmt.Sprintf("(VFloat %d%%N)", v.Bits)
	case "double":
		return fmt.Sprintf("(VDouble %d%%N)", v.Bits)
	case "bool":
		return "(VBool " + hx.CoqBool(v.B) + ")"
	case "str":
		return "(VStr " + hx.CoqBytes(v.S) + ")"
	case "bytes":
		return "(VBytes " + hx.CoqBytes(v.S) + ")"
	case "enum":
		if v.Z < 0 {
			// Go enum constants are int32: a negative constant is just another illegal constant for the model (nat)
			return fmt.Sprintf("(VEnum %d)", 1000000-v.Z)
		}
		return fmt.Sprintf("(VEnum %d)", v.Z)
	case "fixed":
		return "(VFixed " + hx.CoqBytes(v.S) + ")"
	case "rec":
		return "(VRec " + coqVals(v.Incs) + " " + coqOptVals(v.Fields) + ")"
	case "union":
		return "(VUnion " + coqOptVals(v.Fields) + ")"
	case "arr":
		return "(VArr " + coqVals(v.Items) + ")"
	case "map":
		items := make([]string, len(v.Items))
		for i := range v.Items {
			items[i] = "(" + hx.CoqBytes(v.Keys[i]) + ", " + v.Items[i].Coq() + ")"
		}
		return "(VMap [" + strings.Join(items, ";") + "])"
	}
	panic("kind " + v.K)
}
func coqVals(l []*Val) string {
	items := make([]string, len(l))
	for i, x := range l {
		items[i] = x.Coq()
	}
	return "[" + strings.Join(items, ";") + "]"
}
func coqOptVals(l []*Val) string {
	items := make([]string, len(l))
	for i, x := range l {
		if x == nil {
			items[i] = "None"
		} else {
			items[i] = "(Some " + x.Coq() + ")"
		}
	}
	return "[" + strings.Join(items, ";") + "]"
}

// float table: every float of the value with the text Go prints for it (the oracle of the model)
type floatEnt struct {
	is32 bool
	bits uint64
	text string
}

func (v *Val) floats(out *[]floatEnt) {
	if v == nil {
		return
	}
	switch v.K {
	case "float":
		f := float64(math.Float32frombits(uint32(v.Bits)))
		*out = append(*out, floatEnt{true, v.Bits, strconv.FormatFloat(f, 'g', -1, 64)})
	case "double":
		*out = append(*out, floatEnt{false, v.Bits, strconv.FormatFloat(math.Float64frombits(v.Bits), 'g', -1, 64)})
	}
	for _, x := range v.Incs {
		x.floats(out)
	}
	for _, x := range v.Fields {
		x.floats(out)
	}
	for _, x := range v.Items {
		x.floats(out)
	}
}
func coqFloats(fs []floatEnt) string {
	seen := map[string]bool{}
	var items []string
	for _, f := range fs {
		k := fmt.Sprint(f.is32, f.bits)
		if seen[k] {
			continue
		}
		seen[k] = true
		items = append(items, fmt.Sprintf("(%s, %d%%N, %s)", hx.CoqBool(f.is32), f.bits, hx.CoqBytes(f.text)))
	}
	return "[" + strings.Join(items, ";") + "]"
}

// ---- abstract value -> generated Go value (reflection)
func (s *Schema) toGo(t RType, v *Val, dst reflect.Value) {
	if dst.Kind() == reflect.Ptr {
		if v == nil {
			return
		}
		dst.Set(reflect.New(dst.Type().Elem()))
		dst = dst.Elem()
	}
	switch {
	case t.Primitive != "":
		setPrim(t.Primitive, v, dst)
	case t.Array != nil:
		if v.NilColl && len(v.Items) == 0 {
			return
		}
		sl := reflect.MakeSlice(dst.Type(), len(v.Items), len(v.Items))
		for i, x := range v.Items {
			s.toGo(*t.Array, x, sl.Index(i))
		}
		dst.Set(sl)
	case t.Map != nil:
		if v.NilColl && len(v.Items) == 0 {
			return
		}
		m := reflect.MakeMap(dst.Type())
		for i, x := range v.Items {
			e := reflect.New(dst.Type().Elem()).Elem()
			s.toGo(*t.Map, x, e)
			m.SetMapIndex(reflect.ValueOf(v.Keys[i]), e)
		}
		dst.Set(m)
	default:
		n := s.Types[t.Reference.Name]
		switch n.Kind {
		case "enum":
			dst.SetInt(v.Z)
		case "fixed":
			reflect.Copy(dst, reflect.ValueOf([]byte(v.S)))
		case "typeref":
			setPrim(n.Prim, v, dst)
		case "record":
			for i, inc := range n.Includes {
				s.toGo(ref(inc), v.Incs[i], dst.FieldByName(inc))
			}
			for i, f := range n.Fields {
				s.toGo(f.Type, v.Fields[i], dst.FieldByName(goFieldName(f.Name)))
			}
		case "standaloneUnion":
			for i, m := range n.Members {
				s.toGo(m.Type, v.Fields[i], dst.FieldByName(goMemberName(m.Alias)))
			}
		case "complexKey":
			s.toGo(ref(n.Key), v.Incs[0], dst.FieldByName(n.Key))
			s.toGo(ref(n.Params), v.Fields[0], dst.FieldByName("Params"))
		default:
			panic("toGo kind " + n.Kind)
		}
	}
}

func setPrim(p string, v *Val, dst reflect.Value) {
	switch p {
	case "int32", "int64":
		dst.SetInt(v.Z)
	case "float32":
		dst.SetFloat(float64(math.Float32frombits(uint32(v.Bits))))
	case "float64":
		dst.SetFloat(math.Float64frombits(v.Bits))
	case "bool":
		dst.SetBool(v.B)
	case "string":
		dst.SetString(v.S)
	case "bytes":
		if v.NilColl && v.S == "" {
			return
		}
		dst.SetBytes([]byte(v.S))
	}
}

// ---- generated Go value -> abstract value
func (s *Schema) fromGo(t RType, src reflect.Value) *Val {
	if src.Kind() == reflect.Ptr {
		if src.IsNil() {
			return nil
		}
		src = src.Elem()
	}
	switch {
	case t.Primitive != "":
		return getPrim(t.Primitive, src)
	case t.Array != nil:
		v := &Val{K: "arr", NilColl: src.IsNil()}
		for i := 0; i < src.Len(); i++ {
			v.Items = append(v.Items, s.fromGo(*t.Array, src.Index(i)))
		}
		return v
	case t.Map != nil:
		v := &Val{K: "map", NilColl: src.IsNil()}
		keys := src.MapKeys()
		sort.Slice(keys, func(i, j int) bool { return keys[i].String() < keys[j].String() })
		for _, k := range keys {
			v.Keys = append(v.Keys, k.String())
			v.Items = append(v.Items, s.fromGo(*t.Map, src.MapIndex(k)))
		}
		return v
	}
	n := s.Types[t.Reference.Name]
	switch n.Kind {
	case "enum":
		return &Val{K: "enum", Z: src.Int()}
	case "fixed":
		b := make([]byte, src.Len())
		reflect.Copy(reflect.ValueOf(b), src)
		return &Val{K: "fixed", S: string(b)}
	case "typeref":
		return getPrim(n.Prim, src)
	case "record":
		v := &Val{K: "rec"}
		for _, inc := range n.Includes {
			v.Incs = append(v.Incs, s.fromGo(ref(inc), src.FieldByName(inc)))
		}
		for _, f := range n.Fields {
			v.Fields = append(v.Fields, s.fromGo(f.Type, src.FieldByName(goFieldName(f.Name))))
		}
		return v
	case "standaloneUnion":
		v := &Val{K: "union"}
		for _, m := range n.Members {
			v.Fields = append(v.Fields, s.fromGo(m.Type, src.FieldByName(goMemberName(m.Alias))))
		}
		return v
	case "complexKey":
		return &Val{K: "ck", Incs: []*Val{s.fromGo(ref(n.Key), src.FieldByName(n.Key))},
			Fields: []*Val{s.fromGo(ref(n.Params), src.FieldByName("Params"))}}
	}
	panic("fromGo kind " + n.Kind)
}

func getPrim(p string, src reflect.Value) *Val {
	switch p {
	case "int32":
		return &Val{K: "int", Z: src.Int()}
	case "int64":
		return &Val{K: "long", Z: src.Int()}
	case "float32":
		return &Val{K: "float", Bits: uint64(math.Float32bits(float32(src.Float())))}
	case "float64":
		return &Val{K: "double", Bits: math.Float64bits(src.Float())}
	case "bool":
		return &Val{K: "bool", B: src.Bool()}
	case "string":
		return &Val{K: "str", S: src.String()}
	case "bytes":
		return &Val{K: "bytes", S: string(src.Bytes()), NilColl: src.IsNil()}
	}
	panic("prim " + p)
}

// ---- structural equality of abstract values: NaN matches NaN (same class), nil = empty, map entries by key
func valEq(a, b *Val) bool {
	if a == nil || b == nil {
		return a == nil && b == nil
	}
	if a.K != b.K {
		return false
	}
	switch a.K {
	case "int", "long", "enum":
		return a.Z == b.Z
	case "float":
		fa, fb := math.Float32frombits(uint32(a.Bits)), math.Float32frombits(uint32(b.Bits))
		if fa != fa && fb != fb {
			return true
		}
		return a.Bits == b.Bits
	case "double":
		fa, fb := math.Float64frombits(a.Bits), math.Float64frombits(b.Bits)
		if fa != fa && fb != fb {
			return true
		}
		return a.Bits == b.Bits
	case "bool":
		return a.B == b.B
	case "str", "bytes", "fixed":
		return a.S == b.S
	case "arr":
		return valsEq(a.Items, b.Items)
	case "map":
		if len(a.Items) != len(b.Items) {
			return false
		}
		idx := map[string]*Val{}
		for i, k := range b.Keys {
			idx[k] = b.Items[i]
		}
		for i, k := range a.Keys {
			x, ok := idx[k]
			if !ok || !valEq(a.Items[i], x) {
				return false
			}
		}
		return true
	case "rec", "union", "ck":
		return valsEq(a.Incs, b.Incs) && valsEq(a.Fields, b.Fields)
	}
	return false
}
func valsEq(a, b []*Val) bool {
	if len(a) != len(b) {
		return false
	}
	for i := range a {
		if !valEq(a[i], b[i]) {
			return false
		}
	}
	return true
}

// ---- strconv.ParseFloat table for the model's decoders: every candidate text in the three modes
func coqParseTable(texts []string) string {
	seen := map[string]bool{}
	var items []string
	for _, t := range texts {
		if seen[t] {
			continue
		}
		seen[t] = true
		f64, err64 := strconv.ParseFloat(t, 64)
		f32, err32 := strconv.ParseFloat(t, 32)
		opt := func(ok bool, bits uint64) string {
			if !ok {
				return "None"
			}
			return fmt.Sprintf("(Some %d%%N)", bits)
		}
		items = append(items, fmt.Sprintf("(0, %s, %s)", hx.CoqBytes(t), opt(err64 == nil, math.Float64bits(f64))))
		items = append(items, fmt.Sprintf("(1, %s, %s)", hx.CoqBytes(t), opt(err32 == nil, uint64(math.Float32bits(float32(f32))))))
		items = append(items, fmt.Sprintf("(2, %s, %s)", hx.CoqBytes(t), opt(err64 == nil, uint64(math.Float32bits(float32(f64))))))
	}
	return "[" + strings.Join(items, ";") + "]"
}
