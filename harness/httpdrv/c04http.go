package main

// mode c04http (for checks/c04.py): the HTTP clause of C04.  "At HTTP level a malformed request is answered with a 4xx
// response and never with a 5xx, a recovered panic, a stack trace or an invocation of resource code, and a malformed
// response makes the client call return an error rather than panic in the caller's goroutine."
// Oracle failures only (no Coq cases).  Raw requests are parsed with http.ReadRequest (what a real server does) and handed
// to the handler of each mounting under a per-request deadline; hostile responses are fed to the generated clients by a
// fake transport, each call under recover.
// Signatures: http:5xx:<where>  http:stack-trace:<where>  http:crash:<where>  http:hang:<where>
//             http:resource-invoked:<where>  client:panic:<where>  client:no-error:<where>  client:hang:<where>

import (
	"bufio"
	"bytes"
	"fmt"
	"io"
	"net/http"
	"net/http/httptest"
	"net/url"
	"reflect"
	"regexp"
	"strings"
	"time"

	"github.com/PapaCharlie/go-restli/v2/restli"

	"verifgen/hx"
)

const c04Site = "v2/restli/handler.go (ServeHTTP, receive, registerMethod*), tunnelling.go, restlicodec readers; client: http.go, collection.go, structs.go"

type c04Req struct {
	Where   string `json:"where"`
	Method  string `json:"method"`
	Mount   string `json:"mount"`
	Verb    string `json:"verb"`
	URI     string `json:"uri"`
	CT      string `json:"content_type,omitempty"`
	Body    string `json:"body,omitempty"`
	Status  int    `json:"status,omitempty"`
	ResBody string `json:"response_body,omitempty"`
	Invoked int    `json:"invoked"`
	Note    string `json:"note,omitempty"`
}

type c04 struct {
	cfg   *hx.Config
	rep   *hx.Report
	r     *hx.Rand
	hangs int
}

type baseReq struct {
	mi   *methodInfo
	w    *wire
	args []reflect.Value
}

// a valid request per method, recorded from the generated client
func (d *c04) baseline(e *env, mi *methodInfo) *baseReq {
	setScenario(&scenario{Kind: "value", Created: -1, Rand: d.r.Fork(), Tame: true})
	e.T.reset()
	m := e.clientMethod(mi)
	args := genArgs(&genv{r: d.r.Fork(), tame: true}, mi, m.Type())
	cr := callClient(m, args)
	w := e.T.last()
	if w == nil || cr.Err != nil || w.Crashed {
		return nil
	}
	return &baseReq{mi, w, args}
}

var stackRe = regexp.MustCompile(`goroutine \d+ \[|runtime/debug\.Stack|\.go:\d+ \+0x`)

// serve one raw request; malformed: the request is certainly malformed, so resource code must not run
func (d *c04) send(m *mounting, where string, mi *methodInfo, verb, uri string, hdr http.Header, body string, malformed bool, note string) {
	if d.hangs >= 3 {
		return
	}
	var raw bytes.Buffer
	fmt.Fprintf(&raw, "%s %s HTTP/1.1\r\nHost: restli.test\r\n", verb, uri)
	for k, vs := range hdr {
		if k == "Content-Length" {
			continue
		}
		for _, v := range vs {
			fmt.Fprintf(&raw, "%s: %s\r\n", k, v)
		}
	}
	fmt.Fprintf(&raw, "Content-Length: %d\r\n\r\n%s", len(body), body)
	c := &c04Req{Where: where, Method: mi.ID(), Mount: m.Name, Verb: verb, URI: uri, CT: hdr.Get("Content-Type"), Body: body, Note: note}
	d.rep.Evaluations++
	d.rep.Count("where=" + where)
	d.rep.Distinct(where+"|"+mi.ID()+"|"+verb+"|"+uri+"|"+body+"|"+c.CT, true)
	sreq, err := http.ReadRequest(bufio.NewReader(&raw))
	if err != nil {
		d.rep.Count("outcome=rejected-by-net/http")
		return
	}
	setScenario(&scenario{Kind: "value", Created: -1, Rand: d.r.Fork(), Tame: true})
	rec := httptest.NewRecorder()
	done := make(chan string, 1)
	go func() {
		defer func() {
			if r := recover(); r != nil {
				done <- fmt.Sprint("panic: ", r)
			}
		}()
		m.Handler.ServeHTTP(rec, sreq)
		done <- ""
	}()
	select {
	case crash := <-done:
		if crash != "" {
			c.Note += " " + crash
			d.rep.Count("outcome=crash")
			d.rep.Fail("http:crash:"+where, "a panic escapes ServeHTTP for a malformed request (the connection is dropped)", c04Site, c, nil)
			return
		}
	case <-time.After(hangDeadline):
		d.hangs++
		d.rep.Count("outcome=hang")
		d.rep.Fail("http:hang:"+where, "the request does not complete within the 2 s deadline", c04Site, c, nil)
		return
	}
	res := rec.Result()
	rb, _ := io.ReadAll(res.Body)
	c.Status, c.Invoked = res.StatusCode, len(invocations())
	if len(rb) > 600 {
		c.ResBody = string(rb[:600])
	} else {
		c.ResBody = string(rb)
	}
	d.rep.Count(fmt.Sprintf("outcome=%dxx", res.StatusCode/100))
	if res.StatusCode >= 500 {
		d.rep.Fail("http:5xx:"+where, "a malformed request is answered with a 5xx", c04Site, c, nil)
	}
	if stackRe.Match(rb) {
		d.rep.Fail("http:stack-trace:"+where, "the answer to a malformed request carries a stack trace (a recovered panic)", c04Site, c, nil)
	}
	if malformed && c.Invoked > 0 {
		d.rep.Fail("http:resource-invoked:"+where, "a malformed request reached resource code", c04Site, c, nil)
	}
	if malformed && res.StatusCode < 400 {
		d.rep.Fail("http:not-4xx:"+where, "a malformed request is not answered with a 4xx", c04Site, c, nil)
	}
}

func keyKind(mi *methodInfo) string {
	last := mi.Res.Spec.Segs[len(mi.Res.Spec.Segs)-1]
	if last.PathKey == nil {
		return "none"
	}
	t := last.PathKey.Type
	if t.Primitive != "" {
		return t.Primitive
	}
	if n := schema.Types[t.Reference.Name]; n != nil {
		if n.Kind == "typeref" {
			return n.Prim
		}
		return n.Kind
	}
	return "?"
}

var intRe = regexp.MustCompile(`^-?[0-9]+$`)

func hostileSegments(maxLen int) []string {
	alpha := []string{"(", ")", ",", ":", "'", "L", "i", "s", "t", "a", "1", "%"}
	out := []string{}
	var rec func(prefix string, n int)
	rec = func(prefix string, n int) {
		if n == 0 {
			return
		}
		for _, a := range alpha {
			out = append(out, prefix+a)
			rec(prefix+a, n-1)
		}
	}
	rec("", maxLen)
	return out
}

func splitURI(uri string) (string, string) {
	if i := strings.Index(uri, "?"); i >= 0 {
		return uri[:i], uri[i+1:]
	}
	return uri, ""
}

func (d *c04) paths(m *mounting, b *baseReq) {
	mi := b.mi
	if !mi.Spec.OnEntity {
		// a key where the method takes none (a collection-level action / finder / create / batch method addressed to an entity,
		// anything below a simple resource): the request does not designate what the method is defined on
		path, query := splitURI(b.w.URI)
		q := ""
		if query != "" {
			q = "?" + query
		}
		for _, k := range []string{"1", "a", "(a:1)"} {
			d.send(m, "path:extra-key", mi, b.w.Verb, path+"/"+k+q, b.w.ReqHeader, b.w.ReqBody, true, "a key where the method takes none")
		}
		return
	}
	kk := keyKind(mi)
	where := "path:" + kk
	path, query := splitURI(b.w.URI)
	if i := strings.LastIndex(path, "/"); i > 0 {
		// the key dropped: an entity-level method / action addressed to the collection
		qq := ""
		if query != "" {
			qq = "?" + query
		}
		d.send(m, "path:key-dropped", mi, b.w.Verb, path[:i]+qq, b.w.ReqHeader, b.w.ReqBody, true, "entity-level method addressed to the collection (key dropped)")
	}
	i := strings.LastIndex(path, "/")
	prefix, valid := path[:i+1], path[i+1:]
	q := ""
	if query != "" {
		q = "?" + query
	}
	maxLen := 2
	if d.cfg.Thorough() || kk == "complexKey" || mi.Kind == "Get" {
		maxLen = 3
	}
	for _, seg := range hostileSegments(maxLen) {
		malformed := (kk == "int64" || kk == "int32") && !intRe.MatchString(seg) && !strings.Contains(seg, "%")
		if kk == "complexKey" && !strings.HasPrefix(seg, "(") && !strings.Contains(seg, "%") {
			malformed = true
		}
		d.send(m, where, mi, b.w.Verb, prefix+seg+q, b.w.ReqHeader, b.w.ReqBody, malformed, "hostile key segment")
	}
	// the empty key after a trailing slash
	d.send(m, where, mi, b.w.Verb, prefix+q, b.w.ReqHeader, b.w.ReqBody, kk != "string", "empty key after a trailing slash")
	// truncations of the valid key
	for n := 1; n < len(valid); n++ {
		t := valid[:n]
		if strings.HasSuffix(t, "%") || (len(t) >= 2 && t[len(t)-2] == '%') {
			continue
		}
		malformed := kk == "complexKey" || ((kk == "int64") && !intRe.MatchString(t))
		d.send(m, where, mi, b.w.Verb, prefix+t+q, b.w.ReqHeader, b.w.ReqBody, malformed, "truncated key")
	}
	// a key where none is expected / a key segment on the way to a sub-resource
	d.send(m, where, mi, b.w.Verb, path+"/("+q, b.w.ReqHeader, b.w.ReqBody, false, "extra segment")
}

var hostileQueries = []string{"&a=1", "a=1&&b=2", "&", "=", "a", "&&", "a=", "=1", "ids=List(", "ids=List(1", "ids=)", "ids=List(1,,2)", "ids=List((", "ids=(", "q=", "q=(",
	"q=)", "action=", "action=(", "a=(", "a=)", "a=((", "a=())", "a=(b:", "a=(b:1", "a=List(", "a=List((a:1)", "a=(a:List(1)", "a=%", "a=%z", "a=%zz", "a=%4", "%=1", "a=%00",
	"a=''", "a='", "a=1&a=2", "start=abc", "count=-", "start=99999999999999999999", "names=List(", "names=x", "flag=maybe", "name=(", "inner=(a:", "ids=List()&ids=List(1)",
	"a=1;b=2", "a=1?b=2", "a=1#b", "+", "a=+", "a=(((((((((((((((((((((((((((((((("}

func (d *c04) queries(m *mounting, b *baseReq) {
	mi := b.mi
	path, query := splitURI(b.w.URI)
	isBatch := strings.HasPrefix(mi.Spec.Name, "batch_") && mi.Spec.MethodType == "REST_METHOD" && mi.Spec.Name != "batch_create"
	for _, hq := range hostileQueries {
		malformed := isBatch && (hq == "ids=List(" || hq == "ids=)" || hq == "ids=List((" || hq == "ids=List(1")
		d.send(m, "query", mi, b.w.Verb, path+"?"+hq, b.w.ReqHeader, b.w.ReqBody, malformed, "hostile query")
		if query != "" {
			d.send(m, "query", mi, b.w.Verb, path+"?"+query+"&"+hq, b.w.ReqHeader, b.w.ReqBody, false, "valid query + hostile suffix")
			d.send(m, "query", mi, b.w.Verb, path+"?"+hq+"&"+query, b.w.ReqHeader, b.w.ReqBody, false, "hostile prefix + valid query")
		}
	}
}

var editBytes = []byte{'{', '}', '[', ']', '"', ',', ':', '0', 'x', 0, '\\', 0xff}

func (d *c04) bodies(m *mounting, b *baseReq) {
	mi := b.mi
	body := b.w.ReqBody
	if body == "" {
		return
	}
	readsBody := !(mi.Kind == "Action" || (mi.Kind == "ActionWithResults" && len(mi.Spec.Params) == 0))
	step := 1
	if len(body) > 48 && !d.cfg.Thorough() {
		step = len(body) / 48
	}
	for n := 0; n < len(body); n += step {
		d.send(m, "body:json", mi, b.w.Verb, b.w.URI, b.w.ReqHeader, body[:n], readsBody, "truncated body")
	}
	for n := 0; n < len(body); n += step {
		for _, eb := range editBytes {
			if body[n] == eb {
				continue
			}
			mut := body[:n] + string([]byte{eb}) + body[n+1:]
			d.send(m, "body:json", mi, b.w.Verb, b.w.URI, b.w.ReqHeader, mut, false, "single-byte edit")
		}
	}
	for _, hb := range []string{"null", "[]", "1", "\"x\"", "{", "}", "{\"", "{\"a\"", "{\"a\":", "{\"a\":1,", "{\"elements\":", "{\"entities\":{\"(\":{}}}", "{\"entities\":{\")\":{}}}",
		"{\"entities\":[]}", "{\"elements\":{}}", "{\"patch\":[]}", "{\"patch\":{\"$set\":[]}}", "{\"patch\":{\"$delete\":{}}}", strings.Repeat("[", 200), strings.Repeat("{\"a\":", 200)} {
		d.send(m, "body:json", mi, b.w.Verb, b.w.URI, b.w.ReqHeader, hb, false, "hostile body")
	}
	for _, ct := range []string{"text/plain", "", "application/x-www-form-urlencoded", "multipart/mixed", "multipart/mixed; boundary=", "application/json; charset=("} {
		h := b.w.ReqHeader.Clone()
		if ct == "" {
			h.Del("Content-Type")
		} else {
			h.Set("Content-Type", ct)
		}
		d.send(m, "body:content-type", mi, b.w.Verb, b.w.URI, h, body, false, "wrong content type")
	}
}

// tunnelled requests: recorded with threshold 1, then damaged
func (d *c04) tunnelled(m *mounting, mi *methodInfo) {
	e := newEnv(m, clientCfg{Threshold: 1})
	defer e.close()
	b := d.baseline(e, mi)
	if b == nil || b.w.ReqHeader.Get("X-HTTP-Method-Override") == "" {
		return
	}
	body := b.w.ReqBody
	step := 1
	if len(body) > 40 && !d.cfg.Thorough() {
		step = len(body) / 40
	}
	for n := 0; n < len(body); n += step {
		d.send(m, "body:tunnel", mi, b.w.Verb, b.w.URI, b.w.ReqHeader, body[:n], false, "truncated tunnelled body")
	}
	for n := 0; n < len(body); n += step {
		for _, eb := range []byte{'-', '\r', '\n', '&', '=', '%', '(', 0} {
			if body[n] != eb {
				d.send(m, "body:tunnel", mi, b.w.Verb, b.w.URI, b.w.ReqHeader, body[:n]+string([]byte{eb})+body[n+1:], false, "single-byte edit of a tunnelled body")
			}
		}
	}
	for _, ct := range []string{"application/json", "text/plain", "", "multipart/mixed", "multipart/mixed; boundary=zzz", "multipart/mixed; boundary=", "multipart/form-data; boundary=x"} {
		h := b.w.ReqHeader.Clone()
		if ct == "" {
			h.Del("Content-Type")
		} else {
			h.Set("Content-Type", ct)
		}
		d.send(m, "body:tunnel", mi, b.w.Verb, b.w.URI, h, body, false, "tunnelled request with another content type")
	}
	for _, ov := range []string{"", "PATCH", "get", "G E T", "POST"} {
		h := b.w.ReqHeader.Clone()
		h.Set("X-HTTP-Method-Override", ov)
		d.send(m, "body:tunnel", mi, b.w.Verb, b.w.URI, h, body, false, "tunnelled request with another override")
	}
	// multipart with missing parts
	h := b.w.ReqHeader.Clone()
	h.Set("Content-Type", "multipart/mixed; boundary=BB")
	for _, mb := range []string{"--BB--\r\n", "--BB\r\nContent-Type: application/x-www-form-urlencoded\r\n\r\nids=List(1)\r\n--BB--\r\n",
		"--BB\r\nContent-Type: application/json\r\n\r\n{}\r\n--BB--\r\n", "--BB\r\n\r\n\r\n--BB--\r\n", "--BB\r\nContent-Type: application/x-www-form-urlencoded\r\n\r\nids=List(\r\n--BB\r\nContent-Type: application/json\r\n\r\n{\r\n--BB--\r\n",
		"--BB\r\nContent-Type: (\r\n\r\nx\r\n--BB--\r\n", "--BB\r\n"} {
		d.send(m, "body:tunnel", mi, b.w.Verb, b.w.URI, h, mb, false, "multipart with missing / damaged parts")
	}
}

// ---- hostile responses for the generated clients
type fakeTransport struct {
	status int
	header http.Header
	body   string
}

func (f *fakeTransport) RoundTrip(req *http.Request) (*http.Response, error) {
	if req.Body != nil {
		io.Copy(io.Discard, req.Body)
		req.Body.Close()
	}
	h := f.header.Clone()
	if h == nil {
		h = http.Header{}
	}
	return &http.Response{StatusCode: f.status, Status: fmt.Sprintf("%d x", f.status), Proto: "HTTP/1.1", ProtoMajor: 1, ProtoMinor: 1, Header: h,
		Body: io.NopCloser(strings.NewReader(f.body)), ContentLength: int64(len(f.body)), Request: req}, nil
}

type c04Resp struct {
	Where  string      `json:"where"`
	Method string      `json:"method"`
	Status int         `json:"status"`
	Header http.Header `json:"header"`
	Body   string      `json:"body"`
	Result string      `json:"result"`
	Note   string      `json:"note,omitempty"`
}

func (d *c04) feed(mi *methodInfo, args []reflect.Value, where string, status int, hdr http.Header, body string, mustFail bool, note string) {
	ft := &fakeTransport{status: status, header: hdr, body: body}
	u, _ := url.Parse("http://restli.test")
	for _, strict := range []bool{false, true} {
		cl := &restli.Client{Client: &http.Client{Transport: ft}, HostnameResolver: &restli.SimpleHostnameResolver{Hostname: u}, StrictResponseDeserialization: strict}
		m := reflect.ValueOf(mi.Res.Entry.NewClient(cl)).MethodByName(mi.GoName)
		d.rep.Evaluations++
		d.rep.Count("where=" + where)
		d.rep.Distinct(where+"|"+mi.ID()+"|"+fmt.Sprint(status, hdr)+"|"+body, true)
		done := make(chan callResult, 1)
		go func() { done <- callClient(m, args) }()
		var cr callResult
		select {
		case cr = <-done:
		case <-time.After(hangDeadline):
			d.rep.Fail("client:hang:"+where, "the client call does not return within 2 s on a hostile response", c04Site,
				&c04Resp{Where: where, Method: mi.ID(), Status: status, Header: hdr, Body: body, Note: note}, nil)
			return
		}
		c := &c04Resp{Where: where, Method: mi.ID(), Status: status, Header: hdr, Body: body, Note: note}
		switch {
		case cr.Paniced != "":
			c.Result = "panic: " + cr.Paniced
			d.rep.Count("client=panic")
			d.rep.Fail("client:panic:"+where, "a malformed response makes the generated client panic in the caller's goroutine", c04Site, c, nil)
		case cr.Err == nil:
			c.Result = "ok"
			d.rep.Count("client=ok")
			if mustFail {
				d.rep.Fail("client:no-error:"+where, "a malformed response is accepted by the generated client (nil error)", c04Site, c, nil)
			}
		default:
			c.Result = fmt.Sprintf("%T", cr.Err)
			d.rep.Count("client=error")
		}
	}
}

var hostileRor2 = []string{"(", ")", "((", "(a:(b:1)", "List(", "List((a:1)", "(a:List(1)", "List(1", "(a:1", "(a:", "(:", "(a", "'", "''x", "%", "%z", "%zz", ",", ":", "(a:1,)", "(a:1,,b:2)",
	"()", "List()", "List(,)", "(a:1)(b:2)", "x", "1x", "-", "99999999999999999999", "1.5", "(a:x,s:y)", "($params:(a:1),a:1", "(a:1,s:%zz)", "", " ", "\t"}

func (d *c04) responses(e *env, b *baseReq) {
	mi := b.mi
	ok := http.Header{"X-Restli-Protocol-Version": {"2.0.0"}, "Content-Type": {"application/json"}}
	withHdr := func(k, v string) http.Header { h := ok.Clone(); h[k] = []string{v}; return h }
	valid := b.w.ResBody
	readsBody := !(mi.Kind == "Update" || mi.Kind == "PartialUpdate" || mi.Kind == "Delete" || mi.Kind == "Action" || mi.Kind == "Create")
	// truncated and edited bodies of the valid response
	if valid != "" && readsBody {
		step := 1
		if len(valid) > 40 && !d.cfg.Thorough() {
			step = len(valid) / 40
		}
		for n := 0; n < len(valid); n += step {
			d.feed(mi, b.args, "truncated-body", b.w.Status, ok, valid[:n], true, "truncated response body")
		}
		for n := 0; n < len(valid); n += step {
			for _, eb := range editBytes {
				if valid[n] != eb {
					d.feed(mi, b.args, "edited-body", b.w.Status, ok, valid[:n]+string([]byte{eb})+valid[n+1:], false, "single-byte edit of the response body")
				}
			}
		}
	}
	for _, hb := range []string{"", "null", "[]", "1", "{", "{\"elements\":null}", "{\"elements\":{}}", "{\"results\":[]}", "{\"results\":null}", "{\"value\":", "{\"value\":{}}", "{\"value\":[{}]}",
		"{\"elements\":[null]}", "{\"elements\":[1]}", "{\"results\":{\"1\":null}}", "{\"errors\":{\"1\":1}}", "{\"statuses\":{\"1\":\"x\"}}", "{\"paging\":[]}", "{\"metadata\":1,\"elements\":[]}", strings.Repeat("[", 300)} {
		d.feed(mi, b.args, "hostile-body", 200, ok, hb, false, "hostile response body")
	}
	// error header with a garbage body, odd statuses, missing / other protocol version
	for _, gb := range []string{"", "garbage", "{", "[]", "null", "{\"status\":\"x\"}", "{\"status\":1e99}", "{\"message\":1}", "{\"errorDetails\":1}", "{\"stackTrace\":[]}"} {
		h := withHdr("X-Restli-Error-Response", "true")
		d.feed(mi, b.args, "error-body", 500, h, gb, true, "error header with a garbage body")
		d.feed(mi, b.args, "error-body", 200, h, gb, true, "error header with a garbage body and status 200")
	}
	d.feed(mi, b.args, "protocol-version", b.w.Status, http.Header{}, valid, true, "no protocol version header")
	d.feed(mi, b.args, "protocol-version", b.w.Status, http.Header{"X-Restli-Protocol-Version": {"1.0.0"}}, valid, true, "other protocol version")
	for _, st := range []int{301, 404, 500, 199, 600} {
		d.feed(mi, b.args, "status", st, ok, valid, true, "non-2xx without the error header")
	}
	// create: hostile X-RestLi-Id / Location
	if mi.Kind == "Create" || mi.Kind == "CreateWithReturnEntity" {
		kk := keyKind(mi)
		for _, id := range hostileRor2 {
			if strings.ContainsAny(id, "\t") {
				continue
			}
			h := withHdr("X-Restli-Id", id)
			h["Location"] = []string{"/x/" + id}
			mustFail := (kk == "int64" && !intRe.MatchString(id)) || (kk == "complexKey" && !strings.HasPrefix(id, "("))
			if mi.Kind == "CreateWithReturnEntity" {
				mustFail = false
			}
			d.feed(mi, b.args, "create-id:"+kk, 201, h, valid, mustFail, "hostile X-RestLi-Id")
		}
		h := ok.Clone()
		h["Location"] = []string{"%zz://("}
		d.feed(mi, b.args, "create-id:"+kk, 201, h, valid, true, "no X-RestLi-Id, garbage Location")
	}
	// batch responses keyed by hostile / unknown keys
	if strings.HasPrefix(mi.Kind, "Batch") && !strings.HasPrefix(mi.Kind, "BatchCreate") {
		val := "{\"status\":204}"
		if mi.Kind == "BatchGet" {
			val = "{\"a\":1}"
		}
		for _, k := range append(append([]string{}, hostileRor2...), "424242", "zzz", "(a:424242,s:zzz)", "UNKNOWN") {
			kq := strings.NewReplacer("\\", "\\\\", "\"", "\\\"", "\t", "\\t").Replace(k)
			d.feed(mi, b.args, "batch-keys", 200, ok, "{\"results\":{\""+kq+"\":"+val+"}}", false, "hostile / unknown key in results")
			d.feed(mi, b.args, "batch-keys", 200, ok, "{\"results\":{},\"errors\":{\""+kq+"\":{\"status\":500}}}", false, "hostile / unknown key in errors")
			d.feed(mi, b.args, "batch-keys", 200, ok, "{\"results\":{},\"statuses\":{\""+kq+"\":200}}", false, "hostile / unknown key in statuses")
		}
	}
	if strings.HasPrefix(mi.Kind, "BatchCreate") {
		for _, id := range hostileRor2 {
			kq := strings.NewReplacer("\\", "\\\\", "\"", "\\\"", "\t", "\\t").Replace(id)
			d.feed(mi, b.args, "batch-create-id", 200, ok, "{\"elements\":[{\"id\":\""+kq+"\",\"status\":201}]}", false, "hostile id in a batch_create element")
			d.feed(mi, b.args, "batch-create-id", 200, ok, "{\"elements\":[{\"id\":\""+kq+"\",\"status\":201,\"entity\":{\"a\":1}}]}", false, "hostile id in a batch_create element")
		}
	}
}

func runC04HTTP(cfg *hx.Config) {
	d := &c04{cfg: cfg, r: hx.NewRand(cfg.Seed)}
	d.rep = hx.NewReport("HTTP clause of C04 on the 12 family resources (REAL generator) with a recording mock: (a) hostile path segments for every key type " +
		"(every string up to length 2-3 over ( ) , : ' L i s t a 1 %, the empty key after a trailing slash, truncations of the valid key incl. complex keys, an extra " +
		"segment) on every entity-level method; (b) ~50 hostile query strings alone / appended / prepended to the valid query on every method; (c) truncations, " +
		"single-byte edits and hostile documents as JSON bodies, wrong content types, damaged tunnelled (form / multipart) bodies, overrides and content types; " +
		"(d) hostile responses fed to every generated client method (truncated / edited / hostile bodies, error header with garbage, protocol version, statuses, " +
		"hostile X-RestLi-Id / Location, batch responses with hostile or unknown keys, hostile batch_create ids), lenient and strict. Every request under a 2 s " +
		"deadline, every client call under recover. distinct by (where, method, request / response)")
	rs := buildResources()
	mounts := buildMountings(rs)
	for mIdx, m := range mounts {
		if mIdx > 0 && !cfg.Thorough() {
			break
		}
		e := newEnv(m, clientCfg{})
		for _, r := range rs {
			for _, mi := range r.Methods {
				b := d.baseline(e, mi)
				if b == nil {
					continue
				}
				d.paths(m, b)
				d.queries(m, b)
				d.bodies(m, b)
				d.tunnelled(m, mi)
				if mIdx == 0 {
					d.responses(e, b)
				}
			}
		}
		e.close()
	}
	d.rep.Extra["hangs"] = d.hangs
	d.rep.Write(cfg.Out)
}

// a request that does not complete within this deadline counts as a hang (generous: the machine may be loaded)
const hangDeadline = 15 * time.Second
