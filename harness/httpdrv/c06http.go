package main

// mode c06http (for checks/c06.py): the last clause of C06 at the generated-client level.  "A lenient client receives the
// partially filled value with no error" (v2/restli/http.go DoAndUnmarshal: with StrictResponseDeserialization=false only a
// MissingRequiredFieldsError is dropped); a strict client gets a *restlicodec.MissingRequiredFieldsError naming EXACTLY the
// absent required fields by full path and still the partially filled value.  Oracle failures only (no Coq cases).
// For every generated client method that returns data, a valid reply is recorded from the real in-process server (seeded
// mock value), parsed, mutated (random subsets of members deleted at any depth, unknown members injected, keys permuted) and
// fed back through a fake transport to a strict and a lenient client.  The expected set of missing paths is computed from
// the family schema (schema.json) and hand-written envelope shapes, independently of the library.
// Signatures (suffix :<Register kind>): lenient:error-returned  lenient:value-lost  strict:missing-not-reported  strict:wrong-set
//   strict:value-lost  strict:spurious-error  lenient:swallowed-other-error  strict:swallowed-other-error  client:panic

import (
	"bytes"
	"encoding/json"
	"fmt"
	"net/http"
	"net/url"
	"reflect"
	"sort"
	"strconv"
	"strings"

	"github.com/PapaCharlie/go-restli/v2/restli"
	"github.com/PapaCharlie/go-restli/v2/restlicodec"

	"verifgen/hx"
)

const c06Site = "v2/restli/http.go:DoAndUnmarshal (lenient: only MissingRequiredFieldsError is dropped), collection.go, collection_batch_methods.go, actions.go, finders.go; restlicodec missing_fields.go"

// ---- shapes: what a reply document looks like, with the required members
type shape struct {
	kind   string // rec arr map leaf opaque
	prim   string // leaf: int string bool
	fields []sfield
	elem   *shape
}
type sfield struct {
	name string
	req  bool
	sh   *shape
}

func leaf(p string) *shape { return &shape{kind: "leaf", prim: p} }

func shapeOf(t RType) *shape {
	switch {
	case t.Primitive != "":
		switch t.Primitive {
		case "int32", "int64":
			return leaf("int")
		case "bool":
			return leaf("bool")
		case "string", "bytes":
			return leaf("string")
		}
		return &shape{kind: "opaque"}
	case t.Array != nil:
		return &shape{kind: "arr", elem: shapeOf(*t.Array)}
	case t.Map != nil:
		return &shape{kind: "map", elem: shapeOf(*t.Map)}
	}
	n := schema.Types[t.Reference.Name]
	switch n.Kind {
	case "enum", "fixed":
		return leaf("string")
	case "typeref":
		return shapeOf(RType{Primitive: n.Prim})
	case "record":
		s := &shape{kind: "rec"}
		var add func(n *Named)
		add = func(n *Named) {
			for _, inc := range n.Includes {
				add(schema.Types[inc])
			}
			for _, f := range n.Fields {
				s.fields = append(s.fields, sfield{f.Name, !f.IsOptional && f.DefaultValue == nil, shapeOf(f.Type)})
			}
		}
		add(n)
		return s
	}
	return &shape{kind: "opaque"} // unions, complex keys: left alone
}

func rec(fs ...sfield) *shape { return &shape{kind: "rec", fields: fs} }

var pagingShape = rec(sfield{"start", true, leaf("int")}, sfield{"count", true, leaf("int")}, sfield{"total", false, leaf("int")},
	sfield{"links", true, &shape{kind: "arr", elem: rec(sfield{"rel", true, leaf("string")}, sfield{"href", true, leaf("string")}, sfield{"type", true, leaf("string")})}})

var errorShape = rec(sfield{"status", false, leaf("int")}, sfield{"message", false, leaf("string")})

// the reply envelope of a method (structs.go), nil when the method returns no data
func replyShape(mi *methodInfo) *shape {
	var ent *shape
	if mi.Res.Spec.Schema != nil {
		ent = shapeOf(*mi.Res.Spec.Schema)
	}
	switch mi.Kind {
	case "Get", "CreateWithReturnEntity", "PartialUpdateWithReturnEntity":
		return ent
	case "GetAll", "Finder":
		return rec(sfield{"elements", true, &shape{kind: "arr", elem: ent}}, sfield{"paging", false, pagingShape})
	case "FinderWithMetadata":
		return rec(sfield{"elements", true, &shape{kind: "arr", elem: ent}}, sfield{"paging", false, pagingShape}, sfield{"metadata", false, shapeOf(*mi.Spec.Metadata)})
	case "BatchGet":
		return rec(sfield{"results", true, &shape{kind: "map", elem: ent}}, sfield{"errors", false, &shape{kind: "map", elem: errorShape}},
			sfield{"statuses", false, &shape{kind: "map", elem: leaf("int")}})
	case "ActionWithResults":
		return rec(sfield{"value", true, shapeOf(*mi.Spec.Return)})
	case "BatchCreate":
		return rec(sfield{"elements", true, &shape{kind: "arr", elem: rec(sfield{"status", true, leaf("int")}, sfield{"id", false, leaf("string")}, sfield{"location", false, leaf("string")})}})
	case "BatchCreateWithReturnEntity":
		return rec(sfield{"elements", true, &shape{kind: "arr", elem: rec(sfield{"status", true, leaf("int")}, sfield{"id", false, leaf("string")}, sfield{"location", false, leaf("string")},
			sfield{"entity", true, ent})}})
	}
	return nil
}

// ---- documents with an explicit member order (so that keys can be permuted)
type jmember struct {
	k string
	v interface{}
}
type jobj []jmember

func toOrdered(x interface{}) interface{} {
	switch t := x.(type) {
	case map[string]interface{}:
		keys := make([]string, 0, len(t))
		for k := range t {
			keys = append(keys, k)
		}
		sort.Strings(keys)
		o := jobj{}
		for _, k := range keys {
			o = append(o, jmember{k, toOrdered(t[k])})
		}
		return o
	case []interface{}:
		out := make([]interface{}, len(t))
		for i, e := range t {
			out[i] = toOrdered(e)
		}
		return out
	}
	return x
}

func render(x interface{}, sb *bytes.Buffer) {
	switch t := x.(type) {
	case jobj:
		sb.WriteByte('{')
		for i, m := range t {
			if i > 0 {
				sb.WriteByte(',')
			}
			kb, _ := json.Marshal(m.k)
			sb.Write(kb)
			sb.WriteByte(':')
			render(m.v, sb)
		}
		sb.WriteByte('}')
	case []interface{}:
		sb.WriteByte('[')
		for i, e := range t {
			if i > 0 {
				sb.WriteByte(',')
			}
			render(e, sb)
		}
		sb.WriteByte(']')
	default:
		b, _ := json.Marshal(t)
		sb.Write(b)
	}
}

func parseDoc(s string) (interface{}, bool) {
	dec := json.NewDecoder(strings.NewReader(s))
	dec.UseNumber()
	var x interface{}
	if err := dec.Decode(&x); err != nil {
		return nil, false
	}
	return toOrdered(x), true
}

func (o jobj) get(k string) (interface{}, bool) {
	for _, m := range o {
		if m.k == k {
			return m.v, true
		}
	}
	return nil, false
}

// ---- mutation: delete members of records at any depth, inject unknown members, permute keys
func mutate(r *hx.Rand, x interface{}, sh *shape, pDel, pInject int) interface{} {
	if sh == nil {
		return x
	}
	switch t := x.(type) {
	case jobj:
		var out jobj
		for _, m := range t {
			var sub *shape
			switch sh.kind {
			case "rec":
				for _, f := range sh.fields {
					if f.name == m.k {
						sub = f.sh
					}
				}
				if r.Chance(pDel) {
					continue
				}
			case "map":
				sub = sh.elem
			}
			out = append(out, jmember{m.k, mutate(r, m.v, sub, pDel, pInject)})
		}
		if sh.kind == "rec" && r.Chance(pInject) {
			out = append(out, jmember{"zzUnknown" + strconv.Itoa(r.Intn(9)), toOrdered(map[string]interface{}{"a": []interface{}{json.Number("1"), map[string]interface{}{"b": nil}}, "s": "x"})})
		}
		for i := len(out) - 1; i > 0; i-- { // permute
			j := r.Intn(i + 1)
			out[i], out[j] = out[j], out[i]
		}
		if out == nil {
			out = jobj{}
		}
		return out
	case []interface{}:
		out := make([]interface{}, len(t))
		var sub *shape
		if sh.kind == "arr" {
			sub = sh.elem
		}
		for i, e := range t {
			out[i] = mutate(r, e, sub, pDel, pInject)
		}
		return out
	}
	return x
}

// the required members that are absent, by full path (the library's convention: '.'-separated member names, map keys as
// members, "[i]" appended for array elements)
func missingPaths(x interface{}, sh *shape, path string, out *[]string) {
	if sh == nil {
		return
	}
	join := func(k string) string {
		if path == "" {
			return k
		}
		return path + "." + k
	}
	switch sh.kind {
	case "rec":
		o, ok := x.(jobj)
		if !ok {
			return
		}
		for _, f := range sh.fields {
			v, present := o.get(f.name)
			if !present {
				if f.req {
					*out = append(*out, join(f.name))
				}
				continue
			}
			missingPaths(v, f.sh, join(f.name), out)
		}
	case "map":
		if o, ok := x.(jobj); ok {
			for _, m := range o {
				missingPaths(m.v, sh.elem, join(m.k), out)
			}
		}
	case "arr":
		if l, ok := x.([]interface{}); ok {
			for i, e := range l {
				missingPaths(e, sh.elem, path+"["+strconv.Itoa(i)+"]", out)
			}
		}
	}
}

// every leaf the mutated document still holds (in known positions) must be in the value the client returned
func lostLeaf(x, got interface{}, sh *shape, path string) string {
	if sh == nil {
		return ""
	}
	switch sh.kind {
	case "leaf":
		a, _ := json.Marshal(x)
		b, _ := json.Marshal(got)
		if string(a) != string(b) {
			return fmt.Sprintf("%s: sent %s, client holds %s", path, a, b)
		}
	case "rec":
		o, ok := x.(jobj)
		g, _ := got.(jobj)
		if !ok {
			return ""
		}
		for _, f := range sh.fields {
			if v, present := o.get(f.name); present {
				gv, _ := g.get(f.name)
				if l := lostLeaf(v, gv, f.sh, path+"."+f.name); l != "" {
					return l
				}
			}
		}
	case "map":
		o, ok := x.(jobj)
		g, _ := got.(jobj)
		if !ok {
			return ""
		}
		for _, m := range o {
			gv, _ := g.get(m.k)
			if l := lostLeaf(m.v, gv, sh.elem, path+"."+m.k); l != "" {
				return l
			}
		}
	case "arr":
		l, ok := x.([]interface{})
		g, _ := got.([]interface{})
		if !ok {
			return ""
		}
		if len(g) != len(l) {
			return fmt.Sprintf("%s: %d elements sent, client holds %d", path, len(l), len(g))
		}
		for i := range l {
			if r := lostLeaf(l[i], g[i], sh.elem, path+"["+strconv.Itoa(i)+"]"); r != "" {
				return r
			}
		}
	}
	return ""
}

var marshalerT = reflect.TypeOf((*restlicodec.Marshaler)(nil)).Elem()

// the value the client returned, as a document in the reply's envelope (re-marshalled by the library's writer, or through
// encoding/json for primitives and arrays of primitives); ok=false when it cannot be rendered (nothing to compare)
func valueDoc(mi *methodInfo, outs []reflect.Value) (doc interface{}, ok bool) {
	defer func() {
		if r := recover(); r != nil {
			doc, ok = nil, false
		}
	}()
	if len(outs) == 0 {
		return nil, false
	}
	v := outs[0]
	one := func(v reflect.Value) (interface{}, bool) {
		if v.Kind() == reflect.Ptr && v.IsNil() {
			return nil, false
		}
		if v.Type().Implements(marshalerT) {
			w := restlicodec.NewCompactJsonWriter()
			if err := v.Interface().(restlicodec.Marshaler).MarshalRestLi(w); err != nil {
				return nil, false
			}
			return parseDoc(w.Finalize())
		}
		b, err := json.Marshal(v.Interface())
		if err != nil {
			return nil, false
		}
		return parseDoc(string(b))
	}
	switch mi.Kind {
	case "ActionWithResults":
		d, ok := one(v)
		if !ok {
			return nil, false
		}
		return jobj{{"value", d}}, true
	case "BatchCreate", "BatchCreateWithReturnEntity":
		l := make([]interface{}, v.Len())
		for i := range l {
			d, ok := one(v.Index(i))
			if !ok {
				return nil, false
			}
			l[i] = d
		}
		return jobj{{"elements", l}}, true
	case "CreateWithReturnEntity":
		if v.IsNil() {
			return nil, false
		}
		return one(v.Elem().FieldByName("Entity"))
	}
	return one(v)
}

type c06Case struct {
	Method   string   `json:"method"`
	Register string   `json:"register"`
	Mode     string   `json:"client"`
	Reply    string   `json:"reply"`
	Valid    string   `json:"valid_reply"`
	Expected []string `json:"expected_missing"`
	Error    string   `json:"error"`
	Fields   []string `json:"reported_missing,omitempty"`
	Lost     string   `json:"lost,omitempty"`
	Note     string   `json:"note,omitempty"`
}

type c06 struct {
	cfg *hx.Config
	rep *hx.Report
	r   *hx.Rand
}

func (d *c06) call(mi *methodInfo, args []reflect.Value, b *baseReq, body string, strict bool) callResult {
	hdr := http.Header{"X-Restli-Protocol-Version": {"2.0.0"}, "Content-Type": {"application/json"}}
	if id := b.w.ResHeader.Get("X-RestLi-Id"); id != "" {
		hdr.Set("X-RestLi-Id", id)
	}
	ft := &fakeTransport{status: b.w.Status, header: hdr, body: body}
	u, _ := url.Parse("http://restli.test")
	cl := &restli.Client{Client: &http.Client{Transport: ft}, HostnameResolver: &restli.SimpleHostnameResolver{Hostname: u}, StrictResponseDeserialization: strict}
	return callClient(reflect.ValueOf(mi.Res.Entry.NewClient(cl)).MethodByName(mi.GoName), args)
}

func (d *c06) feed(mi *methodInfo, b *baseReq, sh *shape, valid string, doc interface{}, malformed bool, note string) {
	var sb bytes.Buffer
	render(doc, &sb)
	body := sb.String()
	var expected []string
	missingPaths(doc, sh, "", &expected)
	sort.Strings(expected)
	for _, strict := range []bool{true, false} {
		mode := "lenient"
		if strict {
			mode = "strict"
		}
		cr := d.call(mi, b.args, b, body, strict)
		c := &c06Case{Method: mi.ID(), Register: mi.Kind, Mode: mode, Reply: body, Valid: valid, Expected: expected, Note: note}
		if cr.Err != nil {
			c.Error = fmt.Sprintf("%T: %v", cr.Err, cr.Err)
			if len(c.Error) > 300 {
				c.Error = c.Error[:300]
			}
		}
		d.rep.Evaluations++
		d.rep.Count("client=" + mode)
		d.rep.Count("register=" + mi.Kind)
		d.rep.Count(fmt.Sprintf("missing=%d", minInt(len(expected), 4)))
		d.rep.Distinct(mi.ID()+"|"+body, len(expected) > 0 || malformed)
		fail := func(sig, what string) { d.rep.Fail(sig+":"+mi.Kind, what, c06Site, c, nil) }
		if cr.Paniced != "" {
			c.Error = "panic: " + cr.Paniced
			fail("client:panic", "the generated client panicked on a reply with missing fields")
			continue
		}
		if malformed {
			d.rep.Count("stream=malformed-leaf")
			if cr.Err == nil {
				fail(mode+":swallowed-other-error", "a reply with a malformed member (wrong JSON type) is accepted without an error")
			} else if _, isMissing := cr.Err.(*restlicodec.MissingRequiredFieldsError); isMissing {
				fail(mode+":swallowed-other-error", "a reply with a malformed member is reported as missing required fields only")
			}
			continue
		}
		mfe, isMissing := cr.Err.(*restlicodec.MissingRequiredFieldsError)
		if isMissing {
			c.Fields = append([]string{}, mfe.Fields...)
			sort.Strings(c.Fields)
		}
		if strict {
			switch {
			case len(expected) == 0 && cr.Err != nil:
				fail("strict:spurious-error", "a strict client returns an error although no required field is missing")
				continue
			case len(expected) > 0 && !isMissing:
				fail("strict:missing-not-reported", "a strict client does not return a *MissingRequiredFieldsError although required fields are missing")
				continue
			case len(expected) > 0 && strings.Join(c.Fields, "\x00") != strings.Join(expected, "\x00"):
				fail("strict:wrong-set", "the MissingRequiredFieldsError does not name exactly the absent required fields by full path")
			}
		} else if cr.Err != nil {
			fail("lenient:error-returned", "a lenient client returns an error for a reply that only lacks fields")
			continue
		}
		// the partially filled value
		got, ok := valueDoc(mi, cr.Outs)
		if !ok {
			nilOut := len(cr.Outs) > 0 && (cr.Outs[0].Kind() == reflect.Ptr || cr.Outs[0].Kind() == reflect.Slice || cr.Outs[0].Kind() == reflect.Map) && cr.Outs[0].IsNil()
			if !nilOut {
				d.rep.Count("value=not-comparable")
				continue
			}
			got = nil // nothing returned: fine only if the reply holds nothing either
		}
		if l := lostLeaf(doc, got, sh, ""); l != "" {
			c.Lost = l
			fail(mode+":value-lost", "a member present in the reply is not in the value the client returned")
		}
	}
}

func minInt(a, b int) int {
	if a < b {
		return a
	}
	return b
}

// replace one leaf of a known position by a value of the wrong JSON type
func breakLeaf(r *hx.Rand, x interface{}, sh *shape) (interface{}, bool) {
	type slot struct {
		set func(interface{})
		sh  *shape
	}
	var slots []slot
	var walk func(x interface{}, sh *shape)
	walk = func(x interface{}, sh *shape) {
		if sh == nil {
			return
		}
		switch t := x.(type) {
		case jobj:
			for i := range t {
				i := i
				var sub *shape
				if sh.kind == "rec" {
					for _, f := range sh.fields {
						if f.name == t[i].k {
							sub = f.sh
						}
					}
				} else if sh.kind == "map" {
					sub = sh.elem
				}
				if sub != nil && sub.kind == "leaf" {
					slots = append(slots, slot{func(v interface{}) { t[i].v = v }, sub})
				}
				walk(t[i].v, sub)
			}
		case []interface{}:
			if sh.kind == "arr" {
				for i := range t {
					i := i
					if sh.elem != nil && sh.elem.kind == "leaf" {
						slots = append(slots, slot{func(v interface{}) { t[i] = v }, sh.elem})
					}
					walk(t[i], sh.elem)
				}
			}
		}
	}
	walk(x, sh)
	if len(slots) == 0 {
		return x, false
	}
	s := slots[r.Intn(len(slots))]
	switch s.sh.prim {
	case "int":
		s.set([]interface{}{"x"}[0])
	case "string":
		s.set(toOrdered(map[string]interface{}{"not": "a string"}))
	case "bool":
		s.set("maybe")
	}
	return x, true
}

func runC06HTTP(cfg *hx.Config) {
	d := &c06{cfg: cfg, r: hx.NewRand(cfg.Seed)}
	d.rep = hx.NewReport("every generated client method of the 12 family resources that returns data (get, batch_get, get_all, finders with and without " +
		"metadata, actions with results, create / partial_update with return entity, batch_create) x seeded valid replies recorded from the real server x " +
		"mutations (random subsets of members deleted at any depth - entity, elements, batch results values, paging, links, metadata, the envelope's own " +
		"members -, unknown members injected, keys permuted; one stream with a member of the wrong JSON type) x {strict, lenient} client. Expected missing " +
		"paths computed from the family schema. non-trivial = some required member is missing or a member is malformed; distinct by (method, reply)")
	rs := buildResources()
	mounts := buildMountings(rs)
	e := newEnv(mounts[0], clientCfg{})
	defer e.close()
	c4 := &c04{cfg: cfg, r: d.r}
	nVal, nMut := 3, 14
	if cfg.Thorough() {
		nVal, nMut = 12, 40
	}
	for _, r := range rs {
		for _, mi := range r.Methods {
			sh := replyShape(mi)
			if sh == nil {
				continue
			}
			if mi.Kind == "BatchGet" && keyKind(mi) == "complexKey" {
				continue // complex keys are re-encoded with their $params: key text of the re-marshalled value is not comparable
			}
			for v := 0; v < nVal; v++ {
				b := c4.baseline(e, mi)
				if b == nil || b.w.ResBody == "" {
					continue
				}
				doc, ok := parseDoc(b.w.ResBody)
				if !ok {
					continue
				}
				// the unmutated reply first (permuted only)
				d.feed(mi, b, sh, b.w.ResBody, mutate(d.r, doc, sh, 0, 0), false, "permuted only")
				for k := 0; k < nMut; k++ {
					pDel := []int{8, 20, 35, 60}[d.r.Intn(4)]
					fresh, _ := parseDoc(b.w.ResBody)
					d.feed(mi, b, sh, b.w.ResBody, mutate(d.r, fresh, sh, pDel, 25), false, "members deleted / injected / permuted")
				}
				for k := 0; k < 3; k++ {
					fresh, _ := parseDoc(b.w.ResBody)
					if broken, ok := breakLeaf(d.r, fresh, sh); ok {
						d.feed(mi, b, sh, b.w.ResBody, broken, true, "one member of the wrong JSON type")
					}
				}
			}
		}
	}
	d.rep.Write(cfg.Out)
}
