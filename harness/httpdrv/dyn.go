package main

// Reflection over the generated bindings: Go type -> schema type, seeded generation of valid argument / result values
// for any generated client or resource method, and a canonical JSON-able form of any Go value (for "the value seen on
// the other side equals the value passed").

import (
	"encoding/hex"
	"encoding/json"
	"fmt"
	"reflect"
	"sort"
	"strconv"
	"strings"

	"verifgen/hx"
)

const famPkg = "verifgen/gen/fam"
const commonPkg = "github.com/PapaCharlie/go-restli/v2/restlidata/generated/com/linkedin/restli/common"

// rtypeOf: the schema type a Go type denotes, when it is built from schema types only
func rtypeOf(t reflect.Type) (RType, bool) {
	if t.Kind() == reflect.Ptr {
		return rtypeOf(t.Elem())
	}
	if t.PkgPath() == famPkg {
		if _, ok := schema.Types[t.Name()]; ok {
			return ref(t.Name()), true
		}
		return RType{}, false
	}
	if t.PkgPath() != "" {
		return RType{}, false
	}
	switch t.Kind() {
	case reflect.Int32:
		return RType{Primitive: "int32"}, true
	case reflect.Int64:
		return RType{Primitive: "int64"}, true
	case reflect.Float32:
		return RType{Primitive: "float32"}, true
	case reflect.Float64:
		return RType{Primitive: "float64"}, true
	case reflect.Bool:
		return RType{Primitive: "bool"}, true
	case reflect.String:
		return RType{Primitive: "string"}, true
	case reflect.Slice:
		if t.Elem().Kind() == reflect.Uint8 {
			return RType{Primitive: "bytes"}, true
		}
		in, ok := rtypeOf(t.Elem())
		if !ok {
			return RType{}, false
		}
		return RType{Array: &in}, true
	case reflect.Map:
		if t.Key().Kind() != reflect.String {
			return RType{}, false
		}
		in, ok := rtypeOf(t.Elem())
		if !ok {
			return RType{}, false
		}
		return RType{Map: &in}, true
	}
	return RType{}, false
}

// ---- generation
type genv struct {
	r    *hx.Rand
	tame bool // identifiers only (C08: content is not the subject)
	url  bool // the value travels in the URL / a header: arbitrary bytes allowed; otherwise valid UTF-8 (JSON bodies)
}

func (g *genv) opts() genOpts {
	return genOpts{utf8: !g.url || g.r.Chance(60), depth: 1 + g.r.Intn(2)}
}

// a non-nil value of the schema-typed Go type t
func (g *genv) typed(t reflect.Type) reflect.Value {
	rt, ok := rtypeOf(t)
	if !ok {
		panic("not a schema type: " + t.String())
	}
	old := tameStrings
	tameStrings = g.tame
	v := schema.gen(g.r, rt, g.opts())
	tameStrings = old
	dst := reflect.New(t).Elem()
	schema.toGo(rt, v, dst)
	return dst
}

func (g *genv) in(url bool) *genv { c := *g; c.url = url; return &c }

// entity for create / update: the excluded (read-only / create-only) top-level fields stay unset
func (g *genv) entity(t reflect.Type, excluded []string) reflect.Value {
	v := g.typed(t)
	e := v
	if e.Kind() == reflect.Ptr {
		e = e.Elem()
	}
	for _, f := range excluded {
		zeroPath(e, strings.Split(f, "/"))
	}
	return v
}

// unsets the field at a directive's path (field names separated by '/', through record pointers)
func zeroPath(e reflect.Value, path []string) {
	for e.Kind() == reflect.Ptr {
		if e.IsNil() {
			return
		}
		e = e.Elem()
	}
	if e.Kind() != reflect.Struct || len(path) == 0 {
		return
	}
	fv := e.FieldByName(goFieldName(path[0]))
	if !fv.IsValid() {
		return
	}
	if len(path) == 1 {
		fv.Set(reflect.Zero(fv.Type()))
		return
	}
	zeroPath(fv, path[1:])
}

// *X_PartialUpdate: some fields set, some optional fields deleted, never both; nested patches left empty
func (g *genv) patch(t reflect.Type, excluded []string) reflect.Value {
	p := reflect.New(t.Elem())
	set := p.Elem().FieldByName("Set_Fields")
	del := p.Elem().FieldByName("Delete_Fields")
	ex := map[string]bool{}
	nested := map[string][][]string{} // Go field name -> excluded paths below that field
	for _, f := range excluded {
		if i := strings.Index(f, "/"); i >= 0 {
			nested[goFieldName(f[:i])] = append(nested[goFieldName(f[:i])], strings.Split(f[i+1:], "/"))
			continue
		}
		ex[goFieldName(f)] = true
	}
	typed := func(f reflect.StructField) reflect.Value {
		v := g.typed(f.Type)
		for _, p := range nested[f.Name] {
			zeroPath(v, p)
		}
		return v
	}
	any := false
	for i := 0; i < set.NumField(); i++ {
		f := set.Type().Field(i)
		if ex[f.Name] || f.Type.Kind() != reflect.Ptr {
			continue
		}
		if _, ok := rtypeOf(f.Type); !ok {
			continue
		}
		if g.r.Chance(50) {
			set.Field(i).Set(typed(f))
			any = true
		} else if d := del.FieldByName(f.Name); d.IsValid() && len(nested[f.Name]) == 0 && g.r.Chance(40) {
			d.SetBool(true)
			any = true
		}
	}
	if !any {
		for i := 0; i < set.NumField(); i++ {
			f := set.Type().Field(i)
			if _, ok := rtypeOf(f.Type); ok && !ex[f.Name] && f.Type.Kind() == reflect.Ptr {
				set.Field(i).Set(typed(f))
				break
			}
		}
	}
	return p
}

// *XxxParams of a generated method: fields from the specification, the embedded PagingContext when paging is supported
func (g *genv) params(t reflect.Type, spec *MethodSpec, url bool) reflect.Value {
	p := reflect.New(t.Elem())
	gg := g.in(url)
	for _, f := range spec.Params {
		fv := p.Elem().FieldByName(goFieldName(f.Name))
		if !fv.IsValid() {
			panic("no field for parameter " + f.Name + " in " + t.String())
		}
		if f.IsOptional && g.r.Chance(40) {
			continue
		}
		fv.Set(gg.typed(fv.Type()))
	}
	if pc := p.Elem().FieldByName("PagingContext"); pc.IsValid() {
		for _, n := range []string{"Start", "Count"} {
			if g.r.Chance(60) {
				x := int32(g.r.Intn(50))
				pc.FieldByName(n).Set(reflect.ValueOf(&x))
			}
		}
	}
	return p
}

// distinct keys (distinct by canonical form)
func (g *genv) keys(t reflect.Type, n int) []reflect.Value {
	seen := map[string]bool{}
	var out []reflect.Value
	gg := g.in(false) // batch keys come back as JSON object keys
	for tries := 0; len(out) < n && tries < 20; tries++ {
		k := gg.typed(t)
		c := canonKey(k)
		if seen[c] {
			continue
		}
		seen[c] = true
		out = append(out, k)
	}
	return out
}

// complex keys are equal when their key parts are (the $params part is not part of the identity)
func canonKey(k reflect.Value) string {
	e := k
	if e.Kind() == reflect.Ptr && !e.IsNil() {
		e = e.Elem()
	}
	if e.Kind() == reflect.Struct && e.Type().PkgPath() == famPkg {
		if n := schema.Types[e.Type().Name()]; n != nil && n.Kind == "complexKey" {
			return canonJSON(e.FieldByName(n.Key))
		}
	}
	return canonJSON(k)
}

var okStatuses = []int{0, 0, 200, 201, 202}

func (g *genv) errorResponse() reflect.Value {
	st := int32([]int{400, 404, 409, 422, 500, 503}[g.r.Intn(6)])
	msg := "m" + strconv.Itoa(g.r.Intn(1000))
	e := reflect.New(reflect.TypeOf(errorResponseZero))
	e.Elem().FieldByName("Status").Set(reflect.ValueOf(&st))
	if g.r.Chance(70) {
		e.Elem().FieldByName("Message").Set(reflect.ValueOf(&msg))
	}
	return e
}

// result of a resource method for the "value" outcome; keys: the batch keys the server decoded (nil otherwise), n: the
// number of entities of a batch_create
func (g *genv) result(t reflect.Type, keys []reflect.Value, n int) reflect.Value {
	if _, ok := rtypeOf(t); ok {
		return g.typed(t)
	}
	switch t.Kind() {
	case reflect.Ptr:
		v := reflect.New(t.Elem())
		g.fillWrapper(v.Elem(), keys, n)
		return v
	case reflect.Slice: // []*CreatedEntity of batch_create
		s := reflect.MakeSlice(t, n, n)
		for i := 0; i < n; i++ {
			s.Index(i).Set(g.result(t.Elem(), nil, 0))
		}
		return s
	}
	panic("result: cannot generate " + t.String())
}

func (g *genv) fillWrapper(v reflect.Value, keys []reflect.Value, n int) {
	t := v.Type()
	name := t.Name()
	switch {
	case strings.HasPrefix(name, "CreatedEntity["):
		v.FieldByName("Id").Set(g.in(true).typed(v.FieldByName("Id").Type()))
		v.FieldByName("Status").SetInt(int64(okStatuses[g.r.Intn(len(okStatuses))]))
	case strings.HasPrefix(name, "CreatedAndReturnedEntity["):
		g.fillWrapper(v.FieldByName("CreatedEntity"), nil, 0)
		v.FieldByName("Entity").Set(g.typed(v.FieldByName("Entity").Type()))
	case strings.HasPrefix(name, "Elements[") || strings.HasPrefix(name, "ElementsWithMetadata["):
		el := v.FieldByName("Elements")
		k := g.r.Intn(4)
		s := reflect.MakeSlice(el.Type(), k, k)
		for i := 0; i < k; i++ {
			s.Index(i).Set(g.typed(el.Type().Elem()))
		}
		el.Set(s)
		if g.r.Chance(50) {
			pg := reflect.New(v.FieldByName("Paging").Type().Elem())
			pg.Elem().FieldByName("Start").SetInt(int64(g.r.Intn(100)))
			pg.Elem().FieldByName("Count").SetInt(int64(g.r.Intn(100)))
			// total is optional with a default (0): an unset total is filled on decode (C13's subject), so it is always set here
			tot := int32(g.r.Intn(1000))
			pg.Elem().FieldByName("Total").Set(reflect.ValueOf(&tot))
			lk := pg.Elem().FieldByName("Links")
			nl := g.r.Intn(3)
			ls := reflect.MakeSlice(lk.Type(), nl, nl)
			for i := 0; i < nl; i++ {
				l := reflect.New(lk.Type().Elem().Elem())
				l.Elem().FieldByName("Rel").SetString([]string{"next", "prev", "self"}[g.r.Intn(3)])
				l.Elem().FieldByName("Href").SetString("/x?start=" + strconv.Itoa(g.r.Intn(99)))
				l.Elem().FieldByName("Type").SetString("application/json")
				ls.Index(i).Set(l)
			}
			lk.Set(ls)
			v.FieldByName("Paging").Set(pg)
		}
		if md := v.FieldByName("Metadata"); md.IsValid() {
			md.Set(g.typed(md.Type()))
		}
	case strings.HasPrefix(name, "BatchResponse["):
		res, errs, sts := v.FieldByName("Results"), v.FieldByName("Errors"), v.FieldByName("Statuses")
		res.Set(reflect.MakeMap(res.Type()))
		errs.Set(reflect.MakeMap(errs.Type()))
		sts.Set(reflect.MakeMap(sts.Type()))
		for _, k := range keys {
			// an unknown enum symbol decodes to the enum's unknown constant, which cannot be written back: a resource would not echo it
			if iv := k.MethodByName("IsValid"); iv.IsValid() && iv.Type().NumIn() == 0 && !iv.Call(nil)[0].Bool() {
				continue
			}
			switch g.r.Intn(5) {
			case 0, 1, 2:
				res.SetMapIndex(k, g.result(res.Type().Elem(), nil, 0))
				if g.r.Chance(30) {
					sts.SetMapIndex(k, reflect.ValueOf(200))
				}
			case 3:
				errs.SetMapIndex(k, g.errorResponse())
			}
		}
	case name == "BatchEntityUpdateResponse":
		v.FieldByName("Status").SetInt(int64([]int{0, 204, 200}[g.r.Intn(3)]))
	default:
		panic("fillWrapper: " + t.String())
	}
}

// ---- canonical form
func canon(v reflect.Value) interface{} {
	if !v.IsValid() {
		return nil
	}
	switch v.Kind() {
	case reflect.Ptr, reflect.Interface:
		if v.IsNil() {
			return nil
		}
		return canon(v.Elem())
	case reflect.Struct:
		m := map[string]interface{}{}
		for i := 0; i < v.NumField(); i++ {
			f := v.Type().Field(i)
			if f.PkgPath != "" { // unexported
				continue
			}
			m[f.Name] = canon(v.Field(i))
		}
		return m
	case reflect.Slice:
		if v.Type().Elem().Kind() == reflect.Uint8 {
			return "b:" + hex.EncodeToString(v.Bytes())
		}
		l := make([]interface{}, v.Len())
		for i := range l {
			l[i] = canon(v.Index(i))
		}
		return l
	case reflect.Array:
		b := make([]byte, v.Len())
		for i := range b {
			b[i] = byte(v.Index(i).Uint())
		}
		return "b:" + hex.EncodeToString(b)
	case reflect.Map:
		type kv struct {
			k string
			e []interface{}
		}
		var l []kv
		for _, k := range v.MapKeys() {
			l = append(l, kv{canonKey(k), []interface{}{canon(k), canon(v.MapIndex(k))}})
		}
		sort.Slice(l, func(i, j int) bool { return l[i].k < l[j].k })
		out := make([]interface{}, len(l))
		for i := range l {
			out[i] = l[i].e
		}
		return out
	case reflect.String:
		return "s:" + strconv.Quote(v.String())
	case reflect.Int, reflect.Int32, reflect.Int64, reflect.Int8, reflect.Int16:
		return "i:" + strconv.FormatInt(v.Int(), 10)
	case reflect.Uint8, reflect.Uint32, reflect.Uint64:
		return "u:" + strconv.FormatUint(v.Uint(), 10)
	case reflect.Bool:
		return v.Bool()
	case reflect.Float32, reflect.Float64:
		return "f:" + strconv.FormatFloat(v.Float(), 'g', -1, 64)
	}
	return fmt.Sprintf("?%s", v.Kind())
}

func canonJSON(v reflect.Value) string {
	b, err := json.Marshal(canon(v))
	if err != nil {
		panic(err)
	}
	return string(b)
}
