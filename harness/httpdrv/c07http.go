package main

// mode c07http (for checks/c07.py): the wiring clause of C07 at the level of the GENERATED bindings.  For every family
// resource that has a record schema and every method that carries an entity (create, update, partial_update and their batch
// forms) the set of excluded fields is derived HERE from the restspec annotations, independently of the generator:
//     readOnly   -> excluded from the bodies of create, batch_create, update, partial_update, batch_update, batch_partial_update
//     createOnly -> excluded from the bodies of update, partial_update, batch_update, batch_partial_update
// and checked against what the generated client transmits and what the generated RegisterResource accepts:
//   client   an entity with EVERY field set goes through the generated client: the body on the wire must be the entity's full
//            serialization minus exactly the excluded fields (nothing excluded is transmitted, nothing else is dropped), the
//            call succeeds and the resource is invoked; a partial update that sets / deletes an excluded field fails on the
//            client without a request, one that touches an allowed field is sent and accepted;
//   server   the same requests re-sent with bodies that carry an excluded field (all of them at once, each one alone; $set and
//            $delete for partial updates) must be answered 400 with the error header and must not reach the resource; bodies
//            without excluded fields are accepted (2xx, resource invoked) - in particular a resource without annotations
//            accepts and transmits everything (control).
// Resources of the family cover the excluded-set shapes {read-only only, create-only only, both, none} on a collection and
// create-only on a simple resource.  Oracle failures only (no Coq cases: the codec-level model of exclusion is exercised by
// the codec driver; this mode ties the specifications the generator hands to the codec).
// Signatures: http:<method>:client-transmits-excluded  client-body-differs  client-call-failed  client-patch-not-refused:<set|delete>
//   client-patch-refused:<set|delete>  client-patch-transmits-excluded:set-nested-full  server-accepts-excluded:<all|one|set|delete|set-nested-full>
//   server-rejects-allowed[:<set|delete|set-nested-pruned>]

import (
	"bytes"
	"encoding/json"
	"fmt"
	"io"
	"mime"
	"mime/multipart"
	"net/http"
	"reflect"
	"sort"
	"strings"

	"github.com/PapaCharlie/go-restli/v2/restli"
	"github.com/PapaCharlie/go-restli/v2/restlicodec"

	"verifgen/hx"
)

const c07Site = "v2/codegen/resources/resource.go and codegen/resources/resource.go (ReadOnlyFields / CreateAndReadOnlyFields, readOnlyFields(), createAndReadOnlyFields()), " +
	"generated <resource>/*.gr.go and RegisterResource; v2/restli/server.go Register*; restlicodec PathSpec"

// the property's table, by method name
func expectedExcluded(spec *ResourceSpec, method string) []string {
	switch method {
	case "create", "batch_create":
		return append([]string{}, spec.ReadOnly...)
	case "update", "partial_update", "batch_update", "batch_partial_update":
		return append(append([]string{}, spec.ReadOnly...), spec.CreateOnly...)
	}
	return nil
}

type c07Req struct {
	Verb string `json:"verb"`
	URI  string `json:"uri"`
	Body string `json:"body"`
}

type c07Case struct {
	Resource   string   `json:"resource"`
	Method     string   `json:"method"`
	ReadOnly   []string `json:"read_only"`
	CreateOnly []string `json:"create_only"`
	Excluded   []string `json:"expected_excluded"`
	Step       string   `json:"step"`
	Threshold  int      `json:"query_tunnelling_threshold"`
	LongQuery  bool     `json:"long_query,omitempty"`
	Tunnelled  bool     `json:"tunnelled,omitempty"`
	Field      string   `json:"field,omitempty"`
	Request    *c07Req  `json:"request,omitempty"`
	WantBody   string   `json:"want_body,omitempty"`
	Status     int      `json:"status,omitempty"`
	ErrHeader  bool     `json:"error_header,omitempty"`
	Invoked    int      `json:"invoked"`
	ClientErr  string   `json:"client_error,omitempty"`
	Sent       int      `json:"requests_sent"`
}

type c07 struct {
	rep       *hx.Report
	r         *hx.Rand
	e         *env
	need      []string // paths a "full" entity must carry a value at (the excluded paths of the method under test)
	threshold int      // Client.QueryTunnellingThreshold of e
	long      bool     // long queries: many batch keys, long query parameters
}

// the request a tunnelled wire stands for (X-HTTP-Method-Override: the query and the JSON entity travel in the body of a POST),
// decoded independently of go-restli with mime/multipart; ok = false when the wire claims to be tunnelled and is not decodable
func untunnel(w *wire) (u *wire, tunnelled, ok bool) {
	verb := w.ReqHeader.Get("X-HTTP-Method-Override")
	if verb == "" {
		return w, false, true
	}
	u = &wire{Verb: verb, URI: w.URI, ReqHeader: w.ReqHeader.Clone(), Status: w.Status, ResHeader: w.ResHeader, ResBody: w.ResBody}
	u.ReqHeader.Del("X-HTTP-Method-Override")
	u.ReqHeader.Del("Content-Type")
	mt, params, err := mime.ParseMediaType(w.ReqHeader.Get("Content-Type"))
	if err != nil || w.Verb != "POST" || strings.Contains(w.URI, "?") {
		return u, true, false
	}
	query := ""
	switch mt {
	case "application/x-www-form-urlencoded":
		query = w.ReqBody
	case "multipart/mixed":
		r := multipart.NewReader(strings.NewReader(w.ReqBody), params["boundary"])
		for {
			part, err := r.NextPart()
			if err == io.EOF {
				break
			}
			if err != nil {
				return u, true, false
			}
			b, _ := io.ReadAll(part)
			switch part.Header.Get("Content-Type") {
			case "application/x-www-form-urlencoded":
				query = string(b)
			case "application/json":
				u.ReqBody = string(b)
				u.ReqHeader.Set("Content-Type", "application/json")
			default:
				return u, true, false
			}
		}
	default:
		return u, true, false
	}
	if query != "" {
		u.URI += "?" + query
	}
	return u, true, true
}

func parseJSON(s string) (interface{}, bool) {
	d := json.NewDecoder(strings.NewReader(s))
	d.UseNumber()
	var v interface{}
	if err := d.Decode(&v); err != nil {
		return nil, false
	}
	return v, true
}

func jsonText(v interface{}) string {
	b, _ := json.Marshal(v)
	return string(b)
}

func cloneJSON(v interface{}) interface{} {
	c, _ := parseJSON(jsonText(v))
	return c
}

// remove the value at a PathSpec-style path (field names separated by '/', '*' = every member / item) from a JSON tree
func prunePath(v interface{}, path []string) {
	if len(path) == 0 {
		return
	}
	switch x := v.(type) {
	case map[string]interface{}:
		if path[0] == "*" {
			for k := range x {
				if len(path) == 1 {
					delete(x, k)
				} else {
					prunePath(x[k], path[1:])
				}
			}
			return
		}
		if len(path) == 1 {
			delete(x, path[0])
		} else if sub, ok := x[path[0]]; ok {
			prunePath(sub, path[1:])
		}
	case []interface{}:
		if path[0] == "*" {
			for _, it := range x {
				prunePath(it, path[1:])
			}
		}
	}
}

func hasPath(v interface{}, path []string) bool {
	if len(path) == 0 {
		return true
	}
	switch x := v.(type) {
	case map[string]interface{}:
		if path[0] == "*" {
			for _, sub := range x {
				if hasPath(sub, path[1:]) {
					return true
				}
			}
			return false
		}
		sub, ok := x[path[0]]
		return ok && hasPath(sub, path[1:])
	case []interface{}:
		if path[0] == "*" {
			for _, it := range x {
				if hasPath(it, path[1:]) {
					return true
				}
			}
		}
	}
	return false
}

func pruned(full interface{}, excluded []string) interface{} {
	c := cloneJSON(full)
	for _, p := range excluded {
		prunePath(c, strings.Split(p, "/"))
	}
	return c
}

// the entities of a request body, by method: create / update: the body; batch_create: elements[i] (in order); batch_update:
// entities.<key> (keys in sorted order); partial_update: patch; batch_partial_update: entities.<key>.patch.  f maps each one
// to its replacement.
func mapEntitiesOrdered(body interface{}, method string, f func(e interface{}) interface{}) interface{} {
	switch method {
	case "create", "update":
		return f(body)
	case "partial_update":
		m := body.(map[string]interface{})
		m["patch"] = f(m["patch"])
		return m
	case "batch_create":
		m := body.(map[string]interface{})
		l := m["elements"].([]interface{})
		for i := range l {
			l[i] = f(l[i])
		}
		return m
	case "batch_update", "batch_partial_update":
		m := body.(map[string]interface{})["entities"].(map[string]interface{})
		for _, k := range sortedKeys(m) {
			if method == "batch_update" {
				m[k] = f(m[k])
			} else {
				pm := m[k].(map[string]interface{})
				pm["patch"] = f(pm["patch"])
			}
		}
		return body
	}
	panic("mapEntitiesOrdered " + method)
}

// an entity of Go type t (pointer to a generated record) with every field set, excluded ones included
func (d *c07) fullEntity(t reflect.Type) reflect.Value {
	rt, _ := rtypeOf(t)
	n := schema.Types[rt.Reference.Name]
	for tries := 0; ; tries++ {
		r := d.r.Fork()
		old := tameStrings
		tameStrings = true
		o := genOpts{utf8: true, depth: 3}
		v := &Val{K: "rec"}
		for _, inc := range n.Includes {
			v.Incs = append(v.Incs, schema.gen(r, ref(inc), o))
		}
		for _, f := range n.Fields {
			v.Fields = append(v.Fields, schema.gen(r, f.Type, o)) // optional fields too
		}
		tameStrings = old
		dst := reflect.New(t).Elem()
		schema.toGo(rt, v, dst)
		// ... and a value at every (nested) path the current method excludes
		j := marshalFull(dst)
		ok := true
		for _, p := range d.need {
			if !hasPath(j, strings.Split(p, "/")) {
				ok = false
			}
		}
		if ok {
			return dst
		}
		if tries > 500 {
			panic("cannot generate a fully populated " + n.Name)
		}
	}
}

func marshalFull(v reflect.Value) interface{} {
	w := restlicodec.NewCompactJsonWriter()
	if err := v.Interface().(restlicodec.Marshaler).MarshalRestLi(w); err != nil {
		panic(err)
	}
	j, ok := parseJSON(w.Finalize())
	if !ok {
		panic("the full serialization of an entity is not JSON")
	}
	return j
}

func (d *c07) newCase(mi *methodInfo, step string) *c07Case {
	spec := mi.Res.Spec
	return &c07Case{Resource: mi.Res.Entry.Name, Method: mi.Spec.Name, ReadOnly: append([]string{}, spec.ReadOnly...),
		CreateOnly: append([]string{}, spec.CreateOnly...), Excluded: expectedExcluded(spec, mi.Spec.Name), Step: step,
		Threshold: d.threshold, LongQuery: d.long}
}

func (d *c07) fail(c *c07Case, what, text string) {
	d.rep.Fail("http:"+c.Method+":"+what, text, c07Site, c, nil)
}

func (d *c07) count(c *c07Case) {
	d.rep.Evaluations++
	d.rep.Count("method=" + c.Method)
	d.rep.Count("step=" + c.Step)
	shape := "none"
	switch {
	case len(c.ReadOnly) > 0 && len(c.CreateOnly) > 0:
		shape = "read-only+create-only"
	case len(c.ReadOnly) > 0:
		shape = "read-only"
	case len(c.CreateOnly) > 0:
		shape = "create-only"
	}
	d.rep.Count("annotations=" + shape)
	d.rep.Count(fmt.Sprintf("excluded-for-method=%d", len(c.Excluded)))
	d.rep.Count(fmt.Sprintf("tunnelling-threshold=%d,long-query=%v,tunnelled=%v", c.Threshold, c.LongQuery, c.Tunnelled))
	d.rep.Distinct(fmt.Sprintf("%s|%s|%s|%s|%d|%v", c.Resource, c.Method, c.Step, c.Field, c.Threshold, c.LongQuery), len(c.ReadOnly)+len(c.CreateOnly) > 0)
}

// client call with the given arguments; returns the recorded wire (nil when no request was sent)
func (d *c07) call(mi *methodInfo, args []reflect.Value, c *c07Case) (*wire, callResult) {
	setScenario(&scenario{Kind: "value", Created: -1, Rand: d.r.Fork(), Tame: true})
	d.e.T.reset()
	cr := callClient(d.e.clientMethod(mi), args)
	d.e.T.mu.Lock()
	c.Sent = len(d.e.T.wires)
	d.e.T.mu.Unlock()
	c.Invoked = len(invocations())
	if cr.Err != nil {
		c.ClientErr = fmt.Sprintf("%T: %v", cr.Err, cr.Err)
	}
	if cr.Paniced != "" {
		c.ClientErr = "panic: " + cr.Paniced
	}
	w := d.e.T.last()
	if w != nil {
		u, tunnelled, ok := untunnel(w)
		c.Tunnelled = tunnelled
		if !ok {
			c.Request = &c07Req{Verb: w.Verb, URI: w.URI, Body: w.ReqBody}
			d.fail(c, "client-tunnelled-request-undecodable", "the tunnelled request the client sent cannot be decoded (method override, form-encoded query, JSON part)")
		}
		w = u
		c.Request = &c07Req{Verb: w.Verb, URI: w.URI, Body: w.ReqBody}
		c.Status = w.Status
		c.ErrHeader = strings.ToLower(w.ResHeader.Get(restli.ErrorResponseHeader)) == "true"
	}
	return w, cr
}

// a raw request (the recorded valid one with another body) straight to the server
func (d *c07) send(w *wire, body string, c *c07Case) {
	setScenario(&scenario{Kind: "value", Created: -1, Rand: d.r.Fork(), Tame: true})
	d.e.T.reset()
	c.Request = &c07Req{Verb: w.Verb, URI: w.URI, Body: body}
	req, err := http.NewRequest(w.Verb, "http://restli.test"+w.URI, bytes.NewReader([]byte(body)))
	if err != nil {
		panic(err)
	}
	for k, v := range w.ReqHeader {
		if k != "Content-Length" {
			req.Header[k] = v
		}
	}
	res, err := d.e.C.Client.Do(req)
	c.Invoked = len(invocations())
	c.Sent = 1
	if err != nil {
		c.ClientErr = "transport: " + err.Error()
		return
	}
	res.Body.Close()
	c.Status = res.StatusCode
	c.ErrHeader = strings.ToLower(res.Header.Get(restli.ErrorResponseHeader)) == "true"
}

func (d *c07) expectRejected(c *c07Case, what string) {
	d.count(c)
	if c.Status != 400 || !c.ErrHeader || c.Invoked > 0 {
		d.fail(c, "server-accepts-excluded:"+what, fmt.Sprintf("the generated server does not reject (400, error header, resource not invoked) a %s body carrying a field the restspec excludes for this method: status %d, resource invoked %d time(s)",
			c.Method, c.Status, c.Invoked))
	}
}

func (d *c07) expectAccepted(c *c07Case, what string) {
	d.count(c)
	if c.Status < 200 || c.Status > 299 || c.Invoked != 1 {
		sig := "server-rejects-allowed"
		if what != "" {
			sig += ":" + what
		}
		d.fail(c, sig, fmt.Sprintf("the generated server does not accept a %s body without excluded fields: status %d, resource invoked %d time(s)", c.Method, c.Status, c.Invoked))
	}
}

// position of the entity / patch argument of the generated client method
func entityArg(mt reflect.Type, mi *methodInfo) int {
	for i := mi.NKeys; i < mt.NumIn(); i++ {
		t := mt.In(i)
		if t.Kind() == reflect.Ptr && t.Elem().Kind() == reflect.Struct && strings.HasSuffix(t.Elem().Name(), "Params") && t.Elem().PkgPath() != famPkg {
			continue
		}
		return i
	}
	return -1
}

func sortedKeys(m map[string]interface{}) []string {
	ks := make([]string, 0, len(m))
	for k := range m {
		ks = append(ks, k)
	}
	sort.Strings(ks)
	return ks
}

// ---- create, update, batch_create, batch_update
func (d *c07) entityMethod(mi *methodInfo) {
	method := mi.Spec.Name
	ex := expectedExcluded(mi.Res.Spec, method)
	d.need = ex
	m := d.e.clientMethod(mi)
	mt := m.Type()
	ai := entityArg(mt, mi)
	g := &genv{r: d.r.Fork(), tame: true}
	args := genArgs(g, mi, mt)
	at := mt.In(ai)
	nKeys := 2
	if d.long {
		nKeys = 40
		if !d.longParams(args, mi) && method != "batch_update" {
			return // no query to make long
		}
	}
	// the full serialization of the entities passed: in order for batch_create; batch_update passes one entity under every key
	var fulls []interface{}
	switch method {
	case "create", "update":
		v := d.fullEntity(at)
		args[ai] = v
		fulls = append(fulls, marshalFull(v))
	case "batch_create":
		s := reflect.MakeSlice(at, 2, 2)
		for i := 0; i < 2; i++ {
			v := d.fullEntity(at.Elem())
			s.Index(i).Set(v)
			fulls = append(fulls, marshalFull(v))
		}
		args[ai] = s
	case "batch_update":
		mp := reflect.MakeMap(at)
		v := d.fullEntity(at.Elem())
		for _, k := range d.keys(g, at.Key(), nKeys) {
			mp.SetMapIndex(k, v)
		}
		args[ai] = mp
		fulls = append(fulls, marshalFull(v))
	}
	i := 0
	next := func() interface{} { f := fulls[i%len(fulls)]; i++; return f }
	// 1. through the generated client
	c := d.newCase(mi, "client:full-entity")
	w, cr := d.call(mi, args, c)
	d.count(c)
	if w == nil {
		d.fail(c, "client-call-failed", "a "+method+" of an entity with every field set sends no request (the excluded fields are to be left out silently)")
		return
	}
	got, ok := parseJSON(w.ReqBody)
	if !ok {
		d.fail(c, "client-body-differs", "the request body is not JSON")
		return
	}
	transmitted := false
	i = 0
	want := mapEntitiesOrdered(cloneJSON(got), method, func(e interface{}) interface{} {
		if hasAnyExcluded(e, ex) {
			transmitted = true
		}
		return pruned(next(), ex)
	})
	c.WantBody = jsonText(want)
	switch {
	case transmitted:
		d.fail(c, "client-transmits-excluded", "the generated client transmits a field the restspec excludes for "+method+" (read-only fields for create; read-only and create-only fields for update)")
	case !reflect.DeepEqual(want, got):
		d.fail(c, "client-body-differs", "the body the generated client sends is not the entity's serialization minus exactly the excluded fields")
	case cr.Err != nil || cr.Paniced != "" || c.Status < 200 || c.Status > 299 || c.Invoked != 1:
		d.fail(c, "client-call-failed", "a "+method+" of an entity with every field set does not go through although the body sent is the required one")
	}
	if d.threshold != 0 {
		return // the server side does not depend on the client's tunnelling threshold
	}
	// 2. straight to the server: the full entities (every excluded field present), then each excluded field alone
	if len(ex) > 0 {
		i = 0
		body := mapEntitiesOrdered(cloneJSON(got), method, func(interface{}) interface{} { return cloneJSON(next()) })
		c2 := d.newCase(mi, "server:all-excluded-fields-present")
		d.send(w, jsonText(body), c2)
		d.expectRejected(c2, "all")
		for _, p := range ex {
			var others []string
			for _, q := range ex {
				if q != p {
					others = append(others, q)
				}
			}
			i = 0
			body := mapEntitiesOrdered(cloneJSON(got), method, func(interface{}) interface{} { return pruned(next(), others) })
			c3 := d.newCase(mi, "server:one-excluded-field-present")
			c3.Field = p
			d.send(w, jsonText(body), c3)
			d.expectRejected(c3, "one")
		}
	} else {
		// control: nothing is excluded, the full entity is what the client sent and what the server takes
		c2 := d.newCase(mi, "server:full-entity-no-exclusion")
		d.send(w, w.ReqBody, c2)
		d.expectAccepted(c2, "")
	}
	// the body the client is required to send is accepted
	c4 := d.newCase(mi, "server:pruned-entity")
	d.send(w, jsonText(want), c4)
	d.expectAccepted(c4, "")
}

// n distinct keys; integer keys are 1..n (the generic generator stops at a handful)
func (d *c07) keys(g *genv, kt reflect.Type, n int) []reflect.Value {
	if kt.PkgPath() == "" && (kt.Kind() == reflect.Int64 || kt.Kind() == reflect.Int32) {
		out := make([]reflect.Value, n)
		for i := range out {
			out[i] = reflect.ValueOf(int64(1000 + i)).Convert(kt)
		}
		return out
	}
	return g.keys(kt, n)
}

// makes the query parameters of the call long (every []string parameter gets 30 items); false when the method has none
func (d *c07) longParams(args []reflect.Value, mi *methodInfo) bool {
	done := false
	for i := mi.NKeys; i < len(args); i++ {
		t := args[i].Type()
		if t.Kind() != reflect.Ptr || t.Elem().Kind() != reflect.Struct || !strings.HasSuffix(t.Elem().Name(), "Params") || t.Elem().PkgPath() == famPkg || args[i].IsNil() {
			continue
		}
		e := args[i].Elem()
		for j := 0; j < e.NumField(); j++ {
			f := e.Field(j)
			if f.Kind() == reflect.Slice && f.Type().Elem().Kind() == reflect.String && f.CanSet() {
				s := reflect.MakeSlice(f.Type(), 30, 30)
				for k := 0; k < 30; k++ {
					s.Index(k).SetString(fmt.Sprintf("name%02d", k))
				}
				f.Set(s)
				done = true
			}
		}
	}
	return done
}

func hasAnyExcluded(e interface{}, ex []string) bool {
	for _, p := range ex {
		if hasPath(e, strings.Split(p, "/")) {
			return true
		}
	}
	return false
}

// ---- partial_update, batch_partial_update: one field at a time, $set and $delete
func (d *c07) patchMethod(mi *methodInfo) {
	method := mi.Spec.Name
	ex := expectedExcluded(mi.Res.Spec, method)
	d.need = ex
	excludedField := func(field string) bool { // the top-level field itself is excluded
		for _, p := range ex {
			if p == field {
				return true
			}
		}
		return false
	}
	below := func(field string) []string { // excluded paths strictly below the field, relative to it
		var out []string
		for _, p := range ex {
			if strings.HasPrefix(p, field+"/") {
				out = append(out, p[len(field)+1:])
			}
		}
		return out
	}
	m := d.e.clientMethod(mi)
	mt := m.Type()
	ai := entityArg(mt, mi)
	at := mt.In(ai)
	pt := at // *X_PartialUpdate
	if method == "batch_partial_update" {
		pt = at.Elem()
	}
	recName := strings.TrimSuffix(pt.Elem().Name(), "_PartialUpdate")
	rec := schema.Types[recName]
	if rec == nil {
		panic("no record for " + pt.String())
	}
	entT, ok := pt.Elem().FieldByName("Set_Fields")
	if !ok {
		panic("no Set_Fields in " + pt.String())
	}
	var valid *wire
	// one partial update through the generated client.  expect: "refused" (error, nothing sent), "accepted" (sent, 2xx, resource
	// invoked), "not-on-wire" (either refused, or sent without any value at an excluded path and accepted)
	client := func(step, field string, p reflect.Value, expect string, nested []string) {
		g := &genv{r: d.r.Fork(), tame: true}
		args := genArgs(g, mi, mt)
		if d.long && !d.longParams(args, mi) && method != "batch_partial_update" {
			return // no query to make long
		}
		if method == "batch_partial_update" {
			mp := reflect.MakeMap(at)
			n := 1
			if d.long {
				n = 40
			}
			for _, k := range d.keys(g, at.Key(), n) {
				mp.SetMapIndex(k, p)
			}
			args[ai] = mp
		} else {
			args[ai] = p
		}
		c := d.newCase(mi, "client:patch-"+step)
		c.Field = field
		w, cr := d.call(mi, args, c)
		d.count(c)
		went := cr.Err == nil && cr.Paniced == "" && w != nil && c.Status >= 200 && c.Status <= 299 && c.Invoked == 1
		refused := cr.Err != nil && c.Sent == 0
		switch expect {
		case "refused":
			if !refused {
				d.fail(c, "client-patch-not-refused:"+step, "a partial update touching a field the restspec excludes (read-only / create-only) does not fail on the generated client before a request is sent")
			}
		case "accepted":
			if !went {
				d.fail(c, "client-patch-refused:"+step, "a partial update touching only fields that are not excluded does not go through")
			} else if valid == nil {
				valid = w
			}
		case "not-on-wire":
			if refused {
				return
			}
			onWire := false
			if w != nil {
				if body, ok := parseJSON(w.ReqBody); ok {
					mapEntitiesOrdered(body, method, func(e interface{}) interface{} {
						for _, q := range nested {
							if hasPath(e, append([]string{"$set", field}, strings.Split(q, "/")...)) {
								onWire = true
							}
						}
						return e
					})
				}
			}
			switch {
			case onWire:
				d.fail(c, "client-patch-transmits-excluded:"+step, "a partial update that sets a record field transmits a value at a nested path the restspec excludes (it must fail on the client or leave the value out)")
			case !went:
				d.fail(c, "client-patch-refused:"+step, "a partial update whose excluded nested value was left out does not go through")
			}
		}
	}
	for _, f := range rec.Fields {
		gf := goFieldName(f.Name)
		sf, ok := entT.Type.FieldByName(gf)
		if !ok || sf.Type.Kind() != reflect.Ptr {
			continue
		}
		if _, ok := rtypeOf(sf.Type); !ok {
			continue
		}
		nested := below(f.Name)
		setPatch := func(v reflect.Value) reflect.Value {
			p := reflect.New(pt.Elem())
			p.Elem().FieldByName("Set_Fields").FieldByName(gf).Set(v)
			return p
		}
		switch {
		case excludedField(f.Name):
			client("set", f.Name, setPatch((&genv{r: d.r.Fork(), tame: true}).typed(sf.Type)), "refused", nil)
		case len(nested) > 0:
			// a record field with excluded paths below it: a value that carries them, and one that does not
			need := d.need
			d.need = nested
			full := d.fullEntity(sf.Type)
			prunedV := d.fullEntity(sf.Type)
			d.need = need
			client("set-nested-full", f.Name, setPatch(full), "not-on-wire", nested)
			for _, q := range nested {
				zeroPath(prunedV, strings.Split(q, "/"))
			}
			client("set-nested-pruned", f.Name, setPatch(prunedV), "accepted", nil)
		default:
			client("set", f.Name, setPatch((&genv{r: d.r.Fork(), tame: true}).typed(sf.Type)), "accepted", nil)
		}
		if len(nested) > 0 && !excludedField(f.Name) {
			continue // deleting a record that has an excluded field below it: left unspecified
		}
		p := reflect.New(pt.Elem())
		df := p.Elem().FieldByName("Delete_Fields").FieldByName(gf)
		if !df.IsValid() {
			continue // a required field cannot be deleted (C11)
		}
		df.SetBool(true)
		if excludedField(f.Name) {
			client("delete", f.Name, p, "refused", nil)
		} else {
			client("delete", f.Name, p, "accepted", nil)
		}
	}
	if valid == nil || d.threshold != 0 {
		return
	}
	// straight to the server
	tmpl, _ := parseJSON(valid.ReqBody)
	one := func(patch map[string]interface{}) string {
		return jsonText(mapEntitiesOrdered(cloneJSON(tmpl), method, func(interface{}) interface{} { return cloneJSON(patch) }))
	}
	server := func(step, field string, patch map[string]interface{}, reject bool) {
		c := d.newCase(mi, "server:patch-"+step)
		c.Field = field
		d.send(valid, one(patch), c)
		if reject {
			d.expectRejected(c, step)
		} else {
			d.expectAccepted(c, step)
		}
	}
	// values of the fields: from a fully populated entity (with a value at every excluded path)
	full := d.fullRecordJSON(recName)
	for _, f := range rec.Fields {
		optional := f.IsOptional || f.DefaultValue != nil
		nested := below(f.Name)
		switch {
		case excludedField(f.Name) || len(nested) == 0:
			server("set", f.Name, map[string]interface{}{"$set": map[string]interface{}{f.Name: full[f.Name]}}, excludedField(f.Name))
			if optional {
				server("delete", f.Name, map[string]interface{}{"$delete": []interface{}{f.Name}}, excludedField(f.Name))
			}
		default:
			server("set-nested-full", f.Name, map[string]interface{}{"$set": map[string]interface{}{f.Name: full[f.Name]}}, true)
			server("set-nested-pruned", f.Name, map[string]interface{}{"$set": map[string]interface{}{f.Name: pruned(full[f.Name], nested)}}, false)
		}
	}
}

// the JSON members of a fully populated record of the family, by field name (values generated from the schema)
func (d *c07) fullRecordJSON(name string) map[string]interface{} {
	t := famRecordType(name)
	v := d.fullEntity(t)
	return marshalFull(v).(map[string]interface{})
}

var famRecordTypes = map[string]reflect.Type{}

// *fam.<name>, found through the generated client signatures
func famRecordType(name string) reflect.Type {
	if t, ok := famRecordTypes[name]; ok {
		return t
	}
	panic("record type " + name + " not seen in any client signature")
}

func noteRecordTypes(mt reflect.Type) {
	var visit func(t reflect.Type, depth int)
	visit = func(t reflect.Type, depth int) {
		if depth > 3 {
			return
		}
		switch t.Kind() {
		case reflect.Ptr:
			if t.Elem().Kind() == reflect.Struct && t.Elem().PkgPath() == famPkg {
				if n := schema.Types[t.Elem().Name()]; n != nil && n.Kind == "record" {
					famRecordTypes[t.Elem().Name()] = t
				}
			}
			visit(t.Elem(), depth+1)
		case reflect.Slice, reflect.Map:
			visit(t.Elem(), depth+1)
		}
	}
	for i := 0; i < mt.NumIn(); i++ {
		visit(mt.In(i), 0)
	}
	for i := 0; i < mt.NumOut(); i++ {
		visit(mt.Out(i), 0)
	}
}

func runC07HTTP(cfg *hx.Config) {
	d := &c07{r: hx.NewRand(cfg.Seed)}
	d.rep = hx.NewReport("every resource of the family with a record schema (excluded-field shapes: read-only only, create-only only, both, none; collection and simple) x every " +
		"entity-carrying method (create, update, partial_update, batch_create, batch_update, batch_partial_update, return-entity variants) through the GENERATED client and the GENERATED " +
		"RegisterResource: a fully populated entity through the client (wire body = serialization minus exactly the excluded fields expected from the annotations), the same request with every / " +
		"each single excluded field present straight to the server (400, not invoked), the pruned body (accepted); per field a $set and a $delete partial update through the client (refused before " +
		"sending iff the field is excluded) and straight to the server (400 iff excluded); the client side repeated with Client.QueryTunnellingThreshold 1 and 64, short and long queries " +
		"(40 batch keys, 30-item list parameters; tunnelled requests decoded with mime/multipart). non-trivial = the resource has annotations; distinct by (resource, method, step, field)")
	rs := buildResources()
	mounts := buildMountings(rs)
	rounds := 2
	if cfg.Thorough() {
		rounds = 12
	}
	// Client.QueryTunnellingThreshold: off, every request that has a query, only long queries; with a threshold the client side is
	// run with short and with long queries (40 batch keys, 30-item list parameters)
	type variant struct {
		threshold int
		long      bool
	}
	for vi, v := range []variant{{0, false}, {1, false}, {64, false}, {64, true}, {1, true}} {
		d.threshold, d.long = v.threshold, v.long
		d.e = newEnv(mounts[0], clientCfg{Threshold: v.threshold})
		if vi == 0 {
			for _, r := range rs {
				for _, me := range r.Methods {
					noteRecordTypes(d.e.clientMethod(me).Type())
				}
			}
		}
		d.runAll(rs, rounds)
		d.e.close()
	}
	d.rep.Extra["resources"] = len(rs)
	d.rep.Write(cfg.Out)
}

func (d *c07) runAll(rs []*resInfo, rounds int) {
	for round := 0; round < rounds; round++ {
		for _, r := range rs {
			if r.Spec.Schema == nil || r.Spec.Schema.Reference == nil {
				continue
			}
			if n := schema.Types[r.Spec.Schema.Reference.Name]; n == nil || n.Kind != "record" {
				continue
			}
			for _, me := range r.Methods {
				if me.Spec.MethodType != "REST_METHOD" {
					continue
				}
				switch me.Spec.Name {
				case "create", "update", "batch_create", "batch_update":
					d.entityMethod(me)
				case "partial_update", "batch_partial_update":
					d.patchMethod(me)
				}
			}
		}
	}
}
