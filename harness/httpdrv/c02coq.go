package main

// Coq terms of a C02 case (Corr/C02Corr.v): the call as documents (what Codec/Encode.v's enc yields for the typed
// values), the family's registrations, and what was observed.

import (
	"fmt"
	"reflect"
	"sort"
	"strings"

	"verifgen/hx"
)

// document of an abstract value (the encoder's tree: records and maps with entries sorted by key, as v2's WriteMap emits them)
func (s *Schema) docOf(t RType, v *Val) string {
	switch {
	case t.Primitive != "":
		return primDoc(t.Primitive, v)
	case t.Array != nil:
		items := make([]string, len(v.Items))
		for i, x := range v.Items {
			items[i] = s.docOf(*t.Array, x)
		}
		return "(DArr [" + strings.Join(items, ";") + "])"
	case t.Map != nil:
		var ents []docEntry
		for i, x := range v.Items {
			ents = append(ents, docEntry{v.Keys[i], s.docOf(*t.Map, x)})
		}
		return objDoc(ents)
	}
	n := s.Types[t.Reference.Name]
	switch n.Kind {
	case "enum":
		if v.Z >= 1 && int(v.Z) <= len(n.Symbols) {
			return "(DLeaf (LStr " + hx.CoqBytes(n.Symbols[v.Z-1]) + "))"
		}
		panic("invalid enum constant in a C02 case")
	case "fixed":
		return "(DLeaf (LBytes " + hx.CoqBytes(v.S) + "))"
	case "typeref":
		return primDoc(n.Prim, v)
	case "record":
		return objDoc(s.recordEntries(n, v))
	case "standaloneUnion":
		var ents []docEntry
		for i, m := range n.Members {
			if v.Fields[i] != nil {
				ents = append(ents, docEntry{m.Alias, s.docOf(m.Type, v.Fields[i])})
			}
		}
		return objDoc(ents)
	case "complexKey":
		ents := s.recordEntries(s.Types[n.Key], v.Incs[0])
		if v.Fields[0] != nil {
			ents = append(ents, docEntry{"$params", s.docOf(ref(n.Params), v.Fields[0])})
		}
		return objDoc(ents)
	}
	panic("docOf kind " + n.Kind)
}

type docEntry struct{ k, d string }

func (s *Schema) recordEntries(n *Named, v *Val) []docEntry {
	var ents []docEntry
	for i, inc := range n.Includes {
		ents = append(ents, s.recordEntries(s.Types[inc], v.Incs[i])...)
	}
	for i, f := range n.Fields {
		if v.Fields[i] != nil {
			ents = append(ents, docEntry{f.Name, s.docOf(f.Type, v.Fields[i])})
		}
	}
	return ents
}

func objDoc(ents []docEntry) string {
	sort.SliceStable(ents, func(i, j int) bool { return ents[i].k < ents[j].k })
	items := make([]string, len(ents))
	for i, e := range ents {
		items[i] = "(" + hx.CoqBytes(e.k) + ", " + e.d + ")"
	}
	return "(DObj [" + strings.Join(items, ";") + "])"
}

func primDoc(p string, v *Val) string {
	switch p {
	case "int32", "int64":
		return fmt.Sprintf("(DLeaf (LInt (%d)%%Z))", v.Z)
	case "bool":
		return "(DLeaf (LBool " + hx.CoqBool(v.B) + "))"
	case "string":
		return "(DLeaf (LStr " + hx.CoqBytes(v.S) + "))"
	case "bytes":
		return "(DLeaf (LBytes " + hx.CoqBytes(v.S) + "))"
	}
	panic("primDoc: " + p + " does not occur among the family's keys and parameters")
}

func docOfGo(v reflect.Value) string {
	rt, ok := rtypeOf(v.Type())
	if !ok {
		panic("docOfGo: " + v.Type().String())
	}
	return schema.docOf(rt, schema.fromGo(rt, v))
}

func coqSegs(spec *ResourceSpec) string {
	items := make([]string, len(spec.Segs))
	for i, s := range spec.Segs {
		items[i] = "(" + hx.CoqBytes(s.ResourceName) + ", " + hx.CoqBool(s.PathKey != nil) + ")"
	}
	return "[" + strings.Join(items, ";") + "]"
}

func coqMethod(mi *methodInfo) (method, name string) {
	switch mi.Spec.MethodType {
	case "FINDER":
		return "Method_finder", "(Some " + hx.CoqBytes(mi.Spec.Name) + ")"
	case "ACTION":
		return "Method_action", "(Some " + hx.CoqBytes(mi.Spec.Name) + ")"
	}
	return "Method_" + mi.Spec.Name, "None"
}

// the registrations RegisterResource performs for the family, as Router.reg_in operations
func coqRegistrations(rs []*resInfo) string {
	var items []string
	for _, r := range rs {
		for _, m := range r.Methods {
			what := ""
			switch m.Spec.MethodType {
			case "FINDER":
				what = "RFinder " + hx.CoqBytes(m.Spec.Name)
			case "ACTION":
				what = "RAction " + hx.CoqBytes(m.Spec.Name)
			default:
				what = "RMethod Method_" + m.Spec.Name
			}
			items = append(items, "("+coqSegs(r.Spec)+", "+what+")")
		}
	}
	return "[" + strings.Join(items, ";\n ") + "]"
}

func c02Header(rs []*resInfo) string {
	return "From Coq Require Import List ZArith NArith.\nFrom Coq.Strings Require Import Byte.\n" +
		"From GR Require Import Base.Bytes Codec.Doc Gen.TablesRouter Http.Router Http.EndToEnd Corr.C02Corr.\nImport ListNotations.\n" +
		"Definition fam_regs : list (list segment * reg_what) :=\n " + coqRegistrations(rs) + ".\n" +
		"Definition srv_root := Eval vm_compute in build_server [x2f] fam_regs.\n" +
		"Definition srv_prefix := Eval vm_compute in build_server " + hx.CoqBytes("/api/v1/") + " fam_regs.\n"
}

var coqVerbs = map[string]string{"GET": "VGet", "POST": "VPost", "PUT": "VPut", "DELETE": "VDelete"}

func coqVerb(v string) string {
	if c, ok := coqVerbs[v]; ok {
		return c
	}
	return "VOther"
}

// the call as the model sees it
func coqCall(mi *methodInfo, args []reflect.Value) string {
	spec := mi.Res.Spec
	segs := make([]string, len(spec.Segs))
	for i, s := range spec.Segs {
		segs[i] = "{| sg_name := " + hx.CoqBytes(s.ResourceName) + "; sg_coll := " + hx.CoqBool(s.PathKey != nil) + " |}"
	}
	var keys []string
	for i := 0; i < mi.NKeys; i++ {
		keys = append(keys, docOfGo(args[i]))
	}
	method, name := coqMethod(mi)
	var params []string
	ids := "None"
	hasQuery := mi.Spec.MethodType != "REST_METHOD"
	for i := mi.NKeys; i < len(args); i++ {
		a := args[i]
		t := a.Type()
		switch {
		case t.Kind() == reflect.Ptr && t.Elem().Kind() == reflect.Struct && strings.HasSuffix(t.Elem().Name(), "Params") && t.Elem().PkgPath() != famPkg && mi.Spec.MethodType != "ACTION":
			hasQuery = true
			for _, f := range mi.Spec.Params {
				fv := a.Elem().FieldByName(goFieldName(f.Name))
				if fv.Kind() == reflect.Ptr && fv.IsNil() {
					continue
				}
				params = append(params, "("+hx.CoqBytes(f.Name)+", "+docOfGo(fv)+")")
			}
			if pc := a.Elem().FieldByName("PagingContext"); pc.IsValid() {
				for _, n := range []string{"Start", "Count"} {
					if fv := pc.FieldByName(n); !fv.IsNil() {
						params = append(params, "("+hx.CoqBytes(strings.ToLower(n))+", "+docOfGo(fv)+")")
					}
				}
			}
		case t.Kind() == reflect.Slice && (mi.Spec.Name == "batch_get" || mi.Spec.Name == "batch_delete") && mi.Spec.MethodType == "REST_METHOD":
			hasQuery = true
			var ks []string
			for j := 0; j < a.Len(); j++ {
				ks = append(ks, docOfGo(a.Index(j)))
			}
			ids = "(Some [" + strings.Join(ks, ";") + "])"
		case t.Kind() == reflect.Map:
			hasQuery = true
			var ks []string
			for _, k := range a.MapKeys() {
				ks = append(ks, docOfGo(k))
			}
			ids = "(Some [" + strings.Join(ks, ";") + "])"
		}
	}
	return fmt.Sprintf("{| cl_segs := [%s]; cl_keys := [%s]; cl_method := %s; cl_name := %s; cl_params := [%s]; cl_ids := %s; cl_has_query := %s |}",
		strings.Join(segs, ";"), strings.Join(keys, ";"), method, name, strings.Join(params, ";"), ids, hx.CoqBool(hasQuery))
}

func (c *c02Case) coq(e *env, mi *methodInfo, args []reflect.Value, invoked *methodInfo) string {
	srv, mount := "srv_root", "Bare"
	switch e.Mount.Name {
	case "servemux":
		mount = "Mux"
	case "prefix":
		srv = "srv_prefix"
	}
	override := "None"
	if c.Wire.Override != "" {
		override = "(Some " + coqVerb(c.Wire.Override) + ")"
	}
	inv := "None"
	if invoked != nil {
		m, n := coqMethod(invoked)
		inv = "(Some (" + coqSegs(invoked.Res.Spec) + ", " + m + ", " + n + "))"
	}
	return fmt.Sprintf("{| c_server := %s; c_mount := %s; c_ctx := %s; c_threshold := (%d)%%Z;\n    c_call := %s;\n    o_verb := %s; o_uri := %s; o_method_header := %s; o_override := %s; o_invoked := %s |}",
		srv, mount, hx.CoqBytes(e.Mount.Context), e.Cfg.Threshold, coqCall(mi, args), coqVerb(c.Wire.Verb), hx.CoqBytes(c.Wire.URI),
		hx.CoqBytes(c.Wire.Method), override, inv)
}
