// httpdrv: the HTTP driver shared by C08 (error and status propagation) and C02 (end-to-end call fidelity).  Compiled in
// a scratch module against the bindings the REAL generator produces for the resource family (checks/httpdrv.py).
package main

import (
	"fmt"
	"io"
	"log"
	"os"

	"verifgen/hx"
)

var schema *Schema

func main() {
	cfg := hx.ParseFlags()
	schema = loadSchema(os.Getenv("VERIF_SCHEMA"))
	log.SetOutput(io.Discard) // receive logs every recovered panic with its stack
	mode := os.Getenv("VERIF_MODE")
	switch mode {
	case "c08":
		runC08(cfg)
	case "c08race":
		runC08Race(cfg)
	case "c02":
		runC02(cfg)
	case "c04http":
		runC04HTTP(cfg)
	case "c06http":
		runC06HTTP(cfg)
	case "c07http":
		runC07HTTP(cfg)
	default:
		fmt.Fprintln(os.Stderr, "unknown VERIF_MODE", mode)
		os.Exit(2)
	}
}
