package main

// C08: error and status propagation.  Every method of every family resource x every outcome of the implementation x
// mounting; plus malformed requests; plus (mode c08race, built with -race) concurrent requests sharing one error object.

import (
	"encoding/json"
	"errors"
	"fmt"
	"net/http"
	"os"
	"reflect"
	"sort"
	"strconv"
	"strings"
	"sync"
	"time"

	"github.com/PapaCharlie/go-restli/v2/restli"
	"github.com/PapaCharlie/go-restli/v2/restlidata/generated/com/linkedin/restli/common"

	"verifgen/hx"
)

const nilDeref = "runtime error: invalid memory address or nil pointer dereference"

// the fields of an error response, as plain data
type errFields struct {
	Status    *int64  `json:"status,omitempty"`
	Svc       *int64  `json:"serviceErrorCode,omitempty"`
	Code      *string `json:"code,omitempty"`
	Message   *string `json:"message,omitempty"`
	DocUrl    *string `json:"docUrl,omitempty"`
	RequestId *string `json:"requestId,omitempty"`
	Exc       *string `json:"exceptionClass,omitempty"`
	Stack     *string `json:"stackTrace,omitempty"`
	DType     *string `json:"errorDetailType,omitempty"`
	Details   bool    `json:"errorDetails,omitempty"`
}

func fieldsOf(e *common.ErrorResponse) *errFields {
	if e == nil {
		return nil
	}
	f := &errFields{Code: cp(e.Code), Message: cp(e.Message), DocUrl: cp(e.DocUrl), RequestId: cp(e.RequestId),
		Exc: cp(e.ExceptionClass), Stack: cp(e.StackTrace), DType: cp(e.ErrorDetailType), Details: e.ErrorDetails != nil}
	if e.Status != nil {
		v := int64(*e.Status)
		f.Status = &v
	}
	if e.ServiceErrorCode != nil {
		v := int64(*e.ServiceErrorCode)
		f.Svc = &v
	}
	return f
}
func cp(s *string) *string {
	if s == nil {
		return nil
	}
	c := *s
	return &c
}
func (f *errFields) key() string { b, _ := json.Marshal(f); return string(b) }

// the stack trace's text is runtime dependent: projected to its presence
func (f *errFields) projectStack() *errFields {
	if f != nil && f.Stack != nil {
		s := "S"
		f.Stack = &s
	}
	return f
}

func coqOptZ(p *int64) string {
	if p == nil {
		return "None"
	}
	return fmt.Sprintf("(Some (%d)%%Z)", *p)
}
func coqOptB(p *string) string {
	if p == nil {
		return "None"
	}
	return "(Some " + hx.CoqBytes(*p) + ")"
}
func (f *errFields) coq() string {
	return fmt.Sprintf("(mkErr %s %s %s %s %s %s %s %s %s %s)", coqOptZ(f.Status), coqOptZ(f.Svc), coqOptB(f.Code), coqOptB(f.Message),
		coqOptB(f.DocUrl), coqOptB(f.RequestId), coqOptB(f.Exc), coqOptB(f.Stack), coqOptB(f.DType), hx.CoqBool(f.Details))
}

// an error response body parsed independently of go-restli (encoding/json)
func parseErrBody(body string) (*errFields, bool) {
	var m map[string]json.RawMessage
	if err := json.Unmarshal([]byte(body), &m); err != nil {
		return nil, false
	}
	f := &errFields{}
	geti := func(k string) *int64 {
		if r, ok := m[k]; ok {
			var v int64
			if json.Unmarshal(r, &v) == nil {
				return &v
			}
		}
		return nil
	}
	gets := func(k string) *string {
		if r, ok := m[k]; ok {
			var v string
			if json.Unmarshal(r, &v) == nil {
				return &v
			}
		}
		return nil
	}
	f.Status, f.Svc = geti("status"), geti("serviceErrorCode")
	f.Code, f.Message, f.DocUrl, f.RequestId = gets("code"), gets("message"), gets("docUrl"), gets("requestId")
	f.Exc, f.Stack, f.DType = gets("exceptionClass"), gets("stackTrace"), gets("errorDetailType")
	_, f.Details = m["errorDetails"]
	return f, true
}

type c08Scenario struct {
	Kind     string     `json:"kind"`
	Override int        `json:"override,omitempty"`
	Created  int        `json:"created_status,omitempty"`
	Msg      string     `json:"msg,omitempty"`
	Err      *errFields `json:"error_object,omitempty"`
	Defect   string     `json:"defect,omitempty"`
	Probe    string     `json:"probe,omitempty"`
	PanicVal string     `json:"panic_value,omitempty"`
	// batch methods: the resource answers with a DIFFERENT error response for each of these keys (canonical key -> error)
	BatchErrs map[string]*errFields `json:"batch_errors_returned,omitempty"`
	Big       string                `json:"big_field,omitempty"`
	BigSize   int                   `json:"big_size,omitempty"`
}

type c08Observed struct {
	Crashed   bool                  `json:"crashed"`
	CrashText string                `json:"crash_text,omitempty"`
	Invoked   int                   `json:"invoked"`
	Status    int                   `json:"status"`
	ErrHeader bool                  `json:"error_header"`
	IdHeader  bool                  `json:"id_header"`
	Body      string                `json:"body_kind"`
	BodyErr   *errFields            `json:"body_error,omitempty"`
	Client    string                `json:"client"`
	ClientErr *errFields            `json:"client_error,omitempty"`
	ClientSt  int                   `json:"client_status,omitempty"`
	After     *errFields            `json:"error_object_after,omitempty"`
	RawBody   string                `json:"raw_body,omitempty"`
	BatchErrs map[string]*errFields `json:"client_batch_errors,omitempty"` // the Errors map of the BatchResponse the client returned
	Hooks     []string              `json:"filter_hooks,omitempty"`        // the filter hooks that ran, in order (pre<i> / post<i>)
	Stamp     bool                  `json:"stamp_header,omitempty"`        // the response carries the header a PostRequest hook sets
}

type c08Case struct {
	Mount     string      `json:"mount"`
	Filters   []string    `json:"filters,omitempty"` // the server's filters, in registration order (env.go recFilter kinds)
	Transport string      `json:"transport"`
	Method    string      `json:"method"`
	Kind      string      `json:"register"`
	Name      string      `json:"name"`
	Scenario  c08Scenario `json:"scenario"`
	Observed  c08Observed `json:"observed"`
}

func buildErr(bits int, status int32) *common.ErrorResponse {
	e := &common.ErrorResponse{}
	if bits&1 != 0 {
		e.Status = restli.Int32Pointer(status)
	}
	if bits&2 != 0 {
		e.Message = restli.StringPointer("boom " + strconv.Itoa(bits))
	}
	if bits&4 != 0 {
		e.ServiceErrorCode = restli.Int32Pointer(int32(7000 + bits))
		e.Code = restli.StringPointer("INPUT_VALIDATION_FAILED")
	}
	if bits&8 != 0 {
		e.ExceptionClass = restli.StringPointer("com.example.Boom")
	}
	if bits&16 != 0 {
		e.ErrorDetails = &common.ErrorDetails{}
	}
	if bits&32 != 0 {
		e.DocUrl = restli.StringPointer("http://doc/x")
		e.RequestId = restli.StringPointer("req-1")
		e.ErrorDetailType = restli.StringPointer("com.example.Detail")
		e.StackTrace = restli.StringPointer("S")
	}
	return e
}

func observe(e *env, cr callResult, errObj *common.ErrorResponse) c08Observed {
	o := c08Observed{Invoked: len(invocations())}
	if len(e.Mount.Filters) > 0 {
		o.Hooks = hookTrace()
	}
	w := e.T.last()
	if cr.Paniced != "" {
		o.Crashed, o.CrashText = true, "client panicked: "+cr.Paniced
	}
	if w == nil {
		o.Client = "no-request:" + fmt.Sprintf("%T", cr.Err)
		return o
	}
	if w.Crashed {
		o.Crashed, o.CrashText = true, w.CrashText
	} else {
		o.Status = w.Status
		o.ErrHeader = strings.ToLower(w.ResHeader.Get(restli.ErrorResponseHeader)) == "true"
		o.IdHeader = w.ResHeader.Get(restli.IDHeader) != ""
		o.Stamp = w.ResHeader.Get(stampHeader) != ""
		ct := w.ResHeader.Get("Content-Type")
		switch {
		case w.ResBody == "":
			o.Body = "none"
		case o.ErrHeader:
			if f, ok := parseErrBody(w.ResBody); ok {
				o.Body, o.BodyErr = "error", f.projectStack()
			} else {
				o.Body, o.RawBody = "bad", w.ResBody
			}
		case strings.HasPrefix(ct, "application/json") && json.Valid([]byte(w.ResBody)):
			o.Body = "json"
		case strings.HasPrefix(ct, "text/plain"):
			o.Body, o.RawBody = "text", w.ResBody
		default:
			o.Body, o.RawBody = "bad", w.ResBody
		}
	}
	switch err := cr.Err.(type) {
	case nil:
		o.Client = "ok"
		// a created entity carries the status
		if len(cr.Outs) > 0 && cr.Outs[0].Kind() == reflect.Ptr && !cr.Outs[0].IsNil() {
			el := cr.Outs[0].Elem()
			if el.Kind() == reflect.Struct {
				if f := el.FieldByName("CreatedEntity"); f.IsValid() {
					el = f
				}
				if strings.HasPrefix(el.Type().Name(), "CreatedEntity[") {
					o.Client, o.ClientSt = "created", int(el.FieldByName("Status").Int())
				}
			}
		}
	case *restli.Error:
		o.Client = "restli-error"
		if err.DeserializationError != nil {
			o.Client = "restli-error-undecoded"
		}
		o.ClientErr = fieldsOf(&err.ErrorResponse).projectStack()
	case *restli.UnexpectedStatusCodeError:
		o.Client, o.ClientSt = "unexpected-status", err.Response.StatusCode
	case *restli.CreateResponseHasNoEntityHeaderError:
		o.Client = "no-id-header"
	default:
		if o.Crashed {
			o.Client = "transport-error"
		} else {
			o.Client = "decode-error:" + fmt.Sprintf("%T", cr.Err)
		}
	}
	if errObj != nil {
		o.After = fieldsOf(errObj)
	}
	return o
}

// ---- Coq terms
func coqImpl(sc *c08Scenario) (heap, impl string) {
	ov := "None"
	if sc.Override != 0 {
		ov = fmt.Sprintf("(Some (%d)%%Z)", sc.Override)
	}
	heap = "[]"
	var out string
	switch sc.Kind {
	case "value":
		out = "(OReturn (RValue MOk))"
	case "typednil":
		out = "(OReturn RNil)"
	case "nilelem":
		out = "(OReturn (RValue (MPanic nil_deref)))"
	case "errresp":
		heap = "[" + sc.Err.coq() + "]"
		out = "(OErrResp 0)"
	case "plainerr":
		out = "(OPlain " + hx.CoqBytes(sc.Msg) + ")"
	case "panic", "panicerr":
		out = "(OPanic " + hx.CoqBytes(sc.Msg) + ")"
	}
	impl = fmt.Sprintf("{| i_override := %s; i_outcome := %s; i_created_status := (%d)%%Z; i_id_marshals := true |}", ov, out, sc.Created)
	return
}

func coqDefect(d string) string {
	switch d {
	case "badpath":
		return "(RqBadPath [])"
	case "badquery":
		return "(RqBadQuery [])"
	case "badbody":
		return "(RqBadBody [])"
	case "extrabody":
		return "RqExtraBody"
	}
	return "RqOk"
}

// the hook results of the server's filters (Http/Status.v filter): what PreRequest / PostRequest return
func coqFilters(kinds []string) string {
	errResp := func(status int, msg string) string {
		return fmt.Sprintf("(FErrResp (mkErr (Some (%d)%%Z) None None (Some %s) None None None None None false))", status, hx.CoqBytes(msg))
	}
	items := make([]string, len(kinds))
	for i, k := range kinds {
		pre, post := "FOk", "FOk"
		switch k {
		case "pre-plain":
			pre = "(FPlain " + hx.CoqBytes(filterPreMsg) + ")"
		case "pre-errresp":
			pre = errResp(filterPreStatus, filterPreRespMsg)
		case "post-plain":
			post = "(FPlain " + hx.CoqBytes(filterPostMsg) + ")"
		case "post-errresp":
			post = errResp(filterPostStatus, filterPostRespMsg)
		}
		items[i] = "{| f_pre := " + pre + "; f_post := " + post + " |}"
	}
	return "[" + strings.Join(items, "; ") + "]"
}

func (c *c08Case) coq() string {
	heap, impl := coqImpl(&c.Scenario)
	o := &c.Observed
	body := "OBBad"
	switch o.Body {
	case "none":
		body = "OBNone"
	case "json":
		body = "OBJson"
	case "error":
		body = "(OBErr " + o.BodyErr.coq() + ")"
	case "text":
		body = "OBText"
	}
	cl := "CDecodeErr"
	switch o.Client {
	case "ok":
		cl = "COk"
	case "created":
		cl = fmt.Sprintf("(CCreated (%d)%%Z)", o.ClientSt)
	case "restli-error":
		cl = "(CError " + o.ClientErr.coq() + " true)"
	case "restli-error-undecoded":
		cl = "(CError " + o.ClientErr.coq() + " false)"
	case "unexpected-status":
		cl = fmt.Sprintf("(CUnexpected (%d)%%Z)", o.ClientSt)
	case "no-id-header":
		cl = "CNoIdHeader"
	}
	after := "[]"
	if o.After != nil {
		after = "[" + o.After.coq() + "]"
	}
	return fmt.Sprintf("{| c_meth := {| m_kind := Register%s; m_name := %s |}; c_filters := %s; c_heap := %s; c_defect := %s; c_impl := %s;\n"+
		"    o_crashed := %s; o_invoked := %s; o_status := (%d)%%Z; o_errhdr := %s; o_idhdr := %s; o_body := %s; o_client := %s; o_after := %s |}",
		c.Kind, hx.CoqBytes(c.Name), coqFilters(c.Filters), heap, coqDefect(c.Scenario.Defect), impl, hx.CoqBool(o.Crashed), hx.CoqBool(o.Invoked > 0), o.Status,
		hx.CoqBool(o.ErrHeader), hx.CoqBool(o.IdHeader), body, cl, after)
}

// ---- the protocol's default status per method kind, written from the property text (independent of the model)
func protocolDefault(kind string) int {
	switch kind {
	case "Create", "CreateWithReturnEntity":
		return 201
	case "Update", "PartialUpdate", "Delete":
		return 204
	}
	return 200
}

func hasResult(mi *methodInfo) bool {
	switch mi.Kind {
	case "Update", "PartialUpdate", "Delete", "Action":
		return false
	}
	return true
}

// the values resource code may panic with; the expected message is fmt.Sprint of the recovered value
type panicKind struct {
	name string
	fn   func()
}

var panicKinds = []panicKind{
	{"string", func() { panic("kaboom 23") }},
	{"http.ErrAbortHandler", func() { panic(http.ErrAbortHandler) }},
	{"runtime:nil-map-write", func() { var m map[string]int; m["x"] = 1 }},
	{"error", func() { panic(errors.New("kaboom error 29")) }},
	{"runtime:index-out-of-range", func() { var s []int; i := 5; _ = s[i] }},
	{"struct", func() {
		panic(struct {
			A int
			B string
		}{7, "x"})
	}},
	{"*ErrorResponse", func() {
		panic(&common.ErrorResponse{Status: restli.Int32Pointer(418), Message: restli.StringPointer("teapot")})
	}},
	{"fmt.Stringer", func() { panic(time.Duration(1500) * time.Millisecond) }},
}

func panicText(fn func()) (s string) {
	defer func() { s = fmt.Sprint(recover()) }()
	fn()
	return
}

const c08Site = "v2/restli/handler.go:ServeHTTP / receive / registerMethod; server.go, finders.go, actions.go Register*"

type c08 struct {
	bigDone map[string]bool
	cfg     *hx.Config
	rep     *hx.Report
	sh      *hx.Shards
	r       *hx.Rand
}

func (d *c08) oracle(c *c08Case, mi *methodInfo, before *errFields, clientArgsOK bool) {
	o, sc := &c.Observed, &c.Scenario
	fail := func(sig, what string) { d.rep.Fail(sig, what, c08Site, c, nil) }
	if sc.Probe != "" {
		return
	}
	if o.Crashed {
		sig := "crash:" + sc.Kind
		if sc.PanicVal != "" {
			sig += ":" + sc.PanicVal
		}
		fail(sig, "the connection crashed (a panic escaped ServeHTTP / the client saw a transport error) instead of a response")
		return
	}
	if before != nil && o.After != nil && before.key() != o.After.key() {
		fail("error-object-modified", "the error object held by the resource implementation was modified while the response was written")
	}
	if o.Body == "bad" {
		fail("body-incomplete:"+sc.Kind, "the response body is not a complete JSON document")
	}
	if len(c.Filters) > 0 && d.filterOracle(c, mi) {
		return // the reply is a filter's failure
	}
	if sc.Defect != "" {
		if o.Invoked > 0 {
			fail("malformed:"+sc.Defect+":implementation-invoked", "a request that does not decode reached the resource implementation")
		}
		if o.Status != 400 || !o.ErrHeader {
			fail("malformed:"+sc.Defect+":not-400", "a request that does not decode is not answered with a 400 error response")
		}
		return
	}
	switch sc.Kind {
	case "errresp":
		want := *before
		if want.Status == nil {
			v := int64(500)
			want.Status = &v
		}
		if o.Status != int(*want.Status) {
			fail("errresp:http-status", "the HTTP status differs from the error response's status (500 when unset)")
		}
		if !o.ErrHeader {
			fail("errresp:no-error-header", "the error header is not set on an error response")
		}
		if o.Client != "restli-error" {
			fail("errresp:client-not-error", "the client does not return a *restli.Error for an error response")
			return
		}
		got := *o.ClientErr
		if want.Message == nil {
			got.Message = nil // defaulted by the server: any text
		}
		if want.key() != got.key() {
			fail("errresp:fields-differ", "the error response the client holds differs from the one the resource returned")
		}
	case "plainerr", "panic", "panicerr", "typednil", "nilelem":
		if sc.Kind == "typednil" && mi.Kind == "BatchCreate" || sc.Kind == "typednil" && mi.Kind == "BatchCreateWithReturnEntity" {
			// a nil slice of created entities is an empty list
			if o.Status != 200 || o.ErrHeader || o.Client != "ok" {
				fail("success:nil-slice", "a nil slice result is not delivered as an empty list")
			}
			return
		}
		if o.Status < 400 {
			fail("failure:success-status:"+sc.Kind, "a failure of the implementation is answered with a success status")
		}
		if !o.ErrHeader || o.Body != "error" || o.Client != "restli-error" {
			fail("failure:not-an-error-response:"+sc.Kind, "a failure of the implementation does not reach the client as an error response")
			return
		}
		msg := sc.Msg
		if msg != "" && (o.ClientErr.Message == nil || !strings.Contains(*o.ClientErr.Message, msg)) {
			fail("failure:message-lost:"+sc.Kind, "the error response does not carry the error's message")
		}
		if o.ClientErr.Message == nil || *o.ClientErr.Message == "" {
			fail("failure:no-message:"+sc.Kind, "the error response carries no message")
		}
	case "value":
		want := protocolDefault(mi.Kind)
		if sc.Override != 0 {
			want = sc.Override
		}
		if (mi.Kind == "Create" || mi.Kind == "CreateWithReturnEntity") && sc.Created != 0 {
			want = sc.Created
		}
		if o.ErrHeader {
			fail("success:error-header:"+mi.Kind, "a successful call carries the error header")
		}
		if o.Status != want {
			what := "default"
			if want != protocolDefault(mi.Kind) {
				what = "overridden"
			}
			fail("success:status:"+what+":"+mi.Kind, fmt.Sprintf("a successful %s is answered with status %d instead of %d", mi.Kind, o.Status, want))
		}
		if o.Client != "ok" && o.Client != "created" {
			fail("success:client-error:"+mi.Kind, "a successful call returns an error to the caller")
		}
		if o.Client == "created" && o.ClientSt != want {
			fail("success:created-status:"+mi.Kind, "the created entity does not carry the response status")
		}
	}
}

// first failing hook: PreRequest hooks run in registration order, PostRequest hooks in reverse order; -1 when none fails
func firstFailing(kinds []string, hook string) int {
	if hook == "pre" {
		for i, k := range kinds {
			if strings.HasPrefix(k, "pre-") {
				return i
			}
		}
		return -1
	}
	for i := len(kinds) - 1; i >= 0; i-- {
		if strings.HasPrefix(kinds[i], "post-") {
			return i
		}
	}
	return -1
}

// A server with filters, written from the property text: PreRequest hooks run in order before the method (the first failure
// answers the request, the method is not invoked); PostRequest hooks run in reverse order only after the method SUCCEEDED (the
// first failure answers the request); a failure of the method is delivered as without filters - no hook may replace or drop
// it; hooks that do not fail leave the reply as it is without filters (plus whatever headers they add).  Returns true when a
// filter's failure decides the reply (checked here), false when the reply must be what it is without filters (checked by the
// caller's ordinary oracle).
func (d *c08) filterOracle(c *c08Case, mi *methodInfo) bool {
	o, sc := &c.Observed, &c.Scenario
	fail := func(sig, what string) {
		d.rep.Fail(sig, what, "v2/restli/handler.go:ServeHTTP (PostRequest loop) / receive (PreRequest loop)", c, nil)
	}
	n := len(c.Filters)
	pre, post := firstFailing(c.Filters, "pre"), firstFailing(c.Filters, "post")
	failed := sc.Defect != "" || sc.Kind == "errresp" || sc.Kind == "plainerr" || sc.Kind == "panic" || sc.Kind == "panicerr"
	// typed nil / nil element: the method returns normally and the failure shows when the result is used (inside the adapter,
	// i.e. a failed call, or when it is serialized, i.e. after the PostRequest hooks): both readings are accepted here (the
	// model decides per method kind)
	ambiguous := sc.Kind == "typednil" || sc.Kind == "nilelem"
	var want []string
	for i := 0; i < n && (pre < 0 || i <= pre); i++ {
		want = append(want, fmt.Sprintf("pre%d", i))
	}
	wantAlt := ""
	if pre < 0 && !failed {
		if ambiguous {
			wantAlt = strings.Join(want, " ")
		}
		for i := n - 1; i >= 0 && i >= post; i-- {
			want = append(want, fmt.Sprintf("post%d", i))
		}
	}
	got := strings.Join(o.Hooks, " ")
	if got != strings.Join(want, " ") && (wantAlt == "" || got != wantAlt) {
		postRan := strings.Contains(got, "post")
		switch {
		case failed && pre < 0 && postRan:
			fail("filter:post-ran-after-failure:"+sc.Kind+sc.Defect, "a PostRequest hook ran although the resource method failed (it must only run after a successful call)")
		case pre >= 0 && postRan:
			fail("filter:post-ran-after-pre-failure", "a PostRequest hook ran although a PreRequest hook failed")
		default:
			fail("filter:trace", "filter hooks did not run as required (PreRequest in order up to the first failure, PostRequest in reverse order after success up to the first failure): want ["+strings.Join(want, " ")+"]")
		}
	}
	// the reply of a failing hook: a plain error is a failure status the client reports as an error; an error response is
	// delivered like a resource's
	hookFailure := func(which, kind string, status int, msg string) {
		lw := strings.ToLower(which)
		if strings.HasSuffix(kind, "-plain") {
			if o.Status < 400 {
				fail("filter:"+lw+"-error:success-status", "a failing "+which+"Request hook is answered with a success status")
			}
			if o.Client == "ok" || o.Client == "created" {
				fail("filter:"+lw+"-error:client-ok", "a failing "+which+"Request hook is not reported to the caller as an error")
			}
			return
		}
		if o.Status != status || !o.ErrHeader {
			fail("filter:"+lw+"-errresp:status-or-header", "the error response of a failing "+which+"Request hook is not sent with its status and the error header")
		}
		if o.Client != "restli-error" || o.ClientErr == nil || o.ClientErr.Status == nil || int(*o.ClientErr.Status) != status ||
			o.ClientErr.Message == nil || *o.ClientErr.Message != msg {
			fail("filter:"+lw+"-errresp:client", "the error response of a failing "+which+"Request hook does not reach the caller as a *restli.Error carrying it")
		}
	}
	switch {
	case pre >= 0:
		if o.Invoked > 0 {
			fail("filter:pre-failed:implementation-invoked", "the resource method ran although a PreRequest hook failed")
		}
		hookFailure("Pre", c.Filters[pre], filterPreStatus, filterPreRespMsg)
		return true
	case failed:
		return false // the method's failure, exactly as without filters
	case post >= 0:
		if ambiguous {
			if o.Status < 400 || o.Client == "ok" || o.Client == "created" {
				fail("filter:post-error:success-status", "a failing PostRequest hook / an unusable result is answered as a success")
			}
			return true
		}
		if o.Invoked == 0 {
			fail("filter:not-invoked", "the resource method did not run although no PreRequest hook failed")
		}
		hookFailure("Post", c.Filters[post], filterPostStatus, filterPostRespMsg)
		return true
	}
	if sc.Kind == "value" && !o.Stamp {
		for _, k := range c.Filters {
			if k == "stamp" {
				fail("filter:post-header-lost", "the header a PostRequest hook set is missing from a successful response")
				break
			}
		}
	}
	return false
}

func (d *c08) runCase(e *env, mi *methodInfo, sc *scenario, desc c08Scenario, transport string) *c08Case {
	var before *errFields
	if sc.Err != nil {
		before = fieldsOf(sc.Err)
		desc.Err = fieldsOf(sc.Err)
	}
	setScenario(sc)
	e.T.reset()
	m := e.clientMethod(mi)
	g := &genv{r: d.r.Fork(), tame: true}
	if sc.BatchErrs {
		batchKeyCount = 4
	}
	args := genArgs(g, mi, m.Type())
	batchKeyCount = 0
	cr := callClient(m, args)
	c := &c08Case{Mount: e.Mount.Name, Filters: e.Mount.Filters, Transport: transport, Method: mi.ID(), Kind: mi.Kind, Name: mi.Name, Scenario: desc}
	c.Observed = observe(e, cr, sc.Err)
	if sc.BatchErrs {
		d.batchErrors(c, cr)
	}
	d.oracle(c, mi, before, true)
	d.record(c, mi)
	return c
}

// per-key errors of a batch response: each key's error handed to the caller must be exactly the error response the resource
// returned for THAT key (every field, nothing more), distinct keys must not share one object, and the keys with results are
// the keys the resource gave results for
func (d *c08) batchErrors(c *c08Case, cr callResult) {
	fail := func(sig, what string) {
		d.rep.Fail("batch:"+sig+":"+c.Kind, what, "restlidata BatchResponse.UnmarshalWithKeyLocator (client), BatchResponse.MarshalRestLi / MarshalBatchEntities (server); v2/restli/collection_batch_methods.go doBatchQuery", c, nil)
	}
	inv := invocations()
	if len(inv) != 1 || !inv[0].RawRes.IsValid() || inv[0].RawRes.IsNil() {
		return
	}
	errsOf := func(v reflect.Value) (map[string]*errFields, map[string]uintptr, []string) {
		out, ptrs := map[string]*errFields{}, map[string]uintptr{}
		var results []string
		if v.Kind() != reflect.Ptr || v.IsNil() {
			return out, ptrs, nil
		}
		em := v.Elem().FieldByName("Errors")
		for _, k := range em.MapKeys() {
			ev := em.MapIndex(k)
			out[canonKey(k)] = fieldsOf(ev.Interface().(*common.ErrorResponse)).projectStack()
			ptrs[canonKey(k)] = ev.Pointer()
		}
		rm := v.Elem().FieldByName("Results")
		for _, k := range rm.MapKeys() {
			results = append(results, canonKey(k))
		}
		sort.Strings(results)
		return out, ptrs, results
	}
	want, _, wantRes := errsOf(inv[0].RawRes)
	c.Scenario.BatchErrs = want
	if cr.Err != nil || len(cr.Outs) == 0 {
		return // the ordinary oracle reports a failed call
	}
	got, ptrs, gotRes := errsOf(cr.Outs[0])
	c.Observed.BatchErrs = got
	d.rep.Count(fmt.Sprintf("batch-error-keys=%d", len(want)))
	if len(got) != len(want) {
		fail("error-keys-differ", "the keys that carry an error at the client are not the keys the resource reported errors for")
		return
	}
	for k, w := range want {
		g, ok := got[k]
		if !ok {
			fail("error-keys-differ", "the keys that carry an error at the client are not the keys the resource reported errors for")
			return
		}
		if g.key() != w.key() {
			fail("error-differs", "the error response the client holds under a key of a batch response is not the one the resource returned for that key (another key's error, or fields of another key's error)")
			return
		}
	}
	seen := map[uintptr]bool{}
	for _, p := range ptrs {
		if seen[p] {
			fail("errors-share-object", "two keys of a batch response share one *ErrorResponse at the client")
			return
		}
		seen[p] = true
	}
	if strings.Join(gotRes, ",") != strings.Join(wantRes, ",") {
		fail("result-keys-differ", "the keys that carry a result at the client are not the keys the resource returned results for")
	}
}

func (d *c08) record(c *c08Case, mi *methodInfo) {
	d.rep.Evaluations++
	d.rep.Count("mount=" + c.Mount)
	d.rep.Count("transport=" + c.Transport)
	d.rep.Count("register=" + c.Kind)
	d.rep.Count("outcome=" + c.Scenario.Kind + c.Scenario.Defect)
	if c.Scenario.Kind == "value" && c.Scenario.Defect == "" {
		d.rep.Count(fmt.Sprintf("override=%d", c.Scenario.Override))
	}
	if c.Scenario.PanicVal != "" {
		d.rep.Count("panic-value=" + c.Scenario.PanicVal)
	}
	d.rep.Count(fmt.Sprintf("status=%d", c.Observed.Status))
	d.rep.Count("client=" + strings.SplitN(c.Observed.Client, ":", 2)[0])
	key := c.Method + "|" + strings.Join(c.Filters, ",") + "|" + fmt.Sprint(len(c.Scenario.BatchErrs)) + "|" + c.Scenario.Kind + "|" + c.Scenario.Defect + "|" + strconv.Itoa(c.Scenario.Override) + "|" + strconv.Itoa(c.Scenario.Created) + "|" + c.Scenario.Msg + "|" + c.Scenario.PanicVal
	if c.Scenario.Err != nil {
		key += c.Scenario.Err.key()
	}
	d.rep.Distinct(key, c.Scenario.Kind != "value" || c.Scenario.Override != 0 || c.Scenario.Created != 0)
	if c.Scenario.Kind == "errresp" && c.Scenario.Err.Message == nil {
		d.rep.Sample(c)
	}
	d.sh.Add(c.coq(), c)
}

func isCreate(mi *methodInfo) bool { return mi.Kind == "Create" || mi.Kind == "CreateWithReturnEntity" }

// full: every outcome; !full: a subset; small: the handful of outcomes run on the servers with filters
func (d *c08) scenarios(e *env, mi *methodInfo, full, small bool, transport string) {
	mt := e.clientMethod(mi).Type()
	_ = mt
	mockT := reflect.ValueOf(mi.Res.Mock).Elem().FieldByName("Mock" + mi.GoName).Type()
	ptrResult := mockT.NumOut() == 2 && mockT.Out(0).Kind() == reflect.Ptr
	sliceResult := mockT.NumOut() == 2 && mockT.Out(0).Kind() == reflect.Slice && strings.HasPrefix(mi.Kind, "BatchCreate")
	run := func(kind string, override, created int, msg string, err *common.ErrorResponse) {
		sc := &scenario{Kind: kind, Override: override, Msg: msg, Err: err, Created: -1, Rand: d.r.Fork(), Tame: true}
		desc := c08Scenario{Kind: kind, Override: override, Msg: msg}
		if isCreate(mi) {
			sc.Created, desc.Created = created, created
		}
		d.runCase(e, mi, sc, desc, transport)
	}
	// success, default and overridden status: another 2xx code, the code every request starts with (200), the protocol
	// defaults of the other method kinds (201, and 204 where the method has no result to send)
	run("value", 0, 0, "", nil)
	run("value", 202, 0, "", nil)
	run("value", 200, 0, "", nil)
	if small {
		run("plainerr", 0, 0, "plain failure 17", nil)
		pk := panicKinds[0]
		sc := &scenario{Kind: "panic", Msg: panicText(pk.fn), PanicFn: pk.fn, Created: -1, Rand: d.r.Fork(), Tame: true}
		d.runCase(e, mi, sc, c08Scenario{Kind: "panic", Msg: sc.Msg, PanicVal: pk.name}, transport)
		if ptrResult || sliceResult {
			run("typednil", 0, 0, "", nil)
		}
		if nilElemApplicable(mi) {
			run("nilelem", 0, 0, "", nil)
		}
		run("errresp", 0, 0, "", buildErr(0, 0))
		run("errresp", 0, 0, "", buildErr(1, 404))
		run("errresp", 202, 0, "", buildErr(3, 409))
		run("errresp", 0, 0, "", buildErr(63, 503))
		return
	}
	if full {
		run("value", 201, 0, "", nil)
		if !hasResult(mi) {
			run("value", 204, 0, "", nil)
		}
		run("value", 203, 0, "", nil)
		if isCreate(mi) {
			run("value", 0, 201, "", nil)
			run("value", 0, 200, "", nil)
			run("value", 202, 200, "", nil)
		}
	}
	switch mi.Kind {
	case "BatchGet", "BatchUpdate", "BatchPartialUpdate", "BatchDelete":
		// per-key errors: two or more keys fail, each with a different error response
		sc := &scenario{Kind: "value", Created: -1, Rand: d.r.Fork(), Tame: true, BatchErrs: true}
		d.runCase(e, mi, sc, c08Scenario{Kind: "value"}, transport)
	}
	// failures that are not error responses
	run("plainerr", 0, 0, "plain failure 17", nil)
	for i, pk := range panicKinds {
		if !full && i >= 3 {
			break
		}
		ov := 0
		if i == 4 {
			ov = 204
		}
		sc := &scenario{Kind: "panic", Override: ov, Msg: panicText(pk.fn), PanicFn: pk.fn, Created: -1, Rand: d.r.Fork(), Tame: true}
		d.runCase(e, mi, sc, c08Scenario{Kind: "panic", Override: ov, Msg: sc.Msg, PanicVal: pk.name}, transport)
	}
	if full {
		run("plainerr", 202, 0, "plain failure 31", nil)
		// an error text with percent signs (percent-encoded keys, "100%"): it must arrive as it is, not be used as a format
		run("plainerr", 0, 0, "disk is 100% full, no entity urn%3Ali%3A42 %", nil)
	}
	if ptrResult || sliceResult {
		run("typednil", 0, 0, "", nil)
	}
	if nilElemApplicable(mi) {
		run("nilelem", 0, 0, "", nil)
	}
	// error responses: every subset of {status, message, codes, exceptionClass, errorDetails, the remaining fields}
	statuses := []int32{400, 404, 409, 422, 500, 503, 418, 599}
	n := 64
	for bits := 0; bits < n; bits++ {
		if !full && bits%9 != 0 && bits != 1 && bits != 2 {
			continue
		}
		ov := 0
		if bits%7 == 3 {
			ov = 202
		}
		run("errresp", ov, 0, "", buildErr(bits, statuses[(bits/2)%len(statuses)]))
	}
}

// ---- big error responses (oracle only: megabyte strings are not handed to the Coq model).  ErrorDetails is an empty struct
// in the Go bindings, so only message and stackTrace can be big.
func bigString(n int) string {
	b := make([]byte, n)
	for i := range b {
		switch {
		case i%4099 == 7:
			b[i] = '"'
		case i%8191 == 11:
			b[i] = '\n'
		case i%127 == 0:
			b[i] = "0123456789"[(i/127)%10]
		default:
			b[i] = "abcdefghijklmnopqrstuvwxyz"[i%26]
		}
	}
	return string(b)
}

var bigSizes = []int{64 << 10, 1<<20 - 1<<10, 1 << 20, 3 << 20}

type bigCase struct {
	Mount     string `json:"mount"`
	Transport string `json:"transport"`
	Method    string `json:"method"`
	Field     string `json:"big_field"`
	Size      int    `json:"size"`
	Status    int    `json:"wire_status"`
	ErrHeader bool   `json:"error_header"`
	BodyLen   int    `json:"wire_body_length"`
	Client    string `json:"client"`
	GotMsgLen int    `json:"client_message_length"`
	GotStkLen int    `json:"client_stacktrace_length"`
	Deser     string `json:"deserialization_error,omitempty"`
}

func (d *c08) bigErrors(e *env, mi *methodInfo, transport string) {
	for _, field := range []string{"message", "stackTrace", "message+stackTrace"} {
		for _, n := range bigSizes {
			obj := buildErr(1|4|8, 422)
			if strings.Contains(field, "message") {
				obj.Message = restli.StringPointer(bigString(n))
			} else {
				obj.Message = restli.StringPointer("small")
			}
			if strings.Contains(field, "stackTrace") {
				obj.StackTrace = restli.StringPointer(bigString(n))
			}
			before := fieldsOf(obj)
			setScenario(&scenario{Kind: "errresp", Err: obj, Created: -1, Rand: d.r.Fork(), Tame: true})
			e.T.reset()
			m := e.clientMethod(mi)
			cr := callClient(m, genArgs(&genv{r: d.r.Fork(), tame: true}, mi, m.Type()))
			c := &bigCase{Mount: e.Mount.Name, Transport: transport, Method: mi.ID(), Field: field, Size: n, Client: fmt.Sprintf("%T", cr.Err)}
			w := e.T.last()
			d.rep.Evaluations++
			d.rep.Count("outcome=errresp-big")
			d.rep.Count(fmt.Sprintf("big=%s:%d", field, n))
			d.rep.Distinct(fmt.Sprintf("big|%s|%s|%d|%s", mi.ID(), field, n, transport), true)
			fail := func(what, text string) {
				d.rep.Fail(fmt.Sprintf("errresp:big:%s", what), text, "v2/restli/errors.go:IsErrorResponse, handler.go:ServeHTTP", c, nil)
			}
			if w == nil || w.Crashed || cr.Paniced != "" {
				fail("crash", "a big error response crashes the exchange")
				continue
			}
			c.Status, c.ErrHeader, c.BodyLen = w.Status, strings.ToLower(w.ResHeader.Get(restli.ErrorResponseHeader)) == "true", len(w.ResBody)
			if c.Status != 422 || !c.ErrHeader {
				fail("status-or-header", "a big error response is not sent with its status and the error header")
			}
			re, ok := cr.Err.(*restli.Error)
			if !ok {
				fail("client-not-error", "the client does not return a *restli.Error for a big error response")
				continue
			}
			got := fieldsOf(&re.ErrorResponse)
			if got.Message != nil {
				c.GotMsgLen = len(*got.Message)
			}
			if got.Stack != nil {
				c.GotStkLen = len(*got.Stack)
			}
			if re.DeserializationError != nil {
				c.Deser = fmt.Sprintf("%T", re.DeserializationError)
				fail("truncated", "a big error response reaches the caller undecoded (DeserializationError set): its body was cut short")
				continue
			}
			if got.key() != before.key() {
				fail("fields-differ", "the error response the client holds differs from the big one the resource returned")
			}
			if fieldsOf(obj).key() != before.key() {
				fail("object-modified", "the resource's big error object was modified")
			}
		}
	}
}

// ---- malformed requests: a valid request is recorded first, then re-sent with one defect
func (d *c08) malformed(e *env, mi *methodInfo) {
	sc := &scenario{Kind: "value", Created: -1, Rand: d.r.Fork(), Tame: true}
	setScenario(sc)
	e.T.reset()
	m := e.clientMethod(mi)
	g := &genv{r: d.r.Fork(), tame: true}
	cr := callClient(m, genArgs(g, mi, m.Type()))
	w := e.T.last()
	if w == nil || cr.Err != nil || w.Crashed {
		return
	}
	spec := mi.Res.Spec
	send := func(defect, uri, body string) {
		setScenario(sc)
		e.T.reset()
		req, err := http.NewRequest(w.Verb, "http://restli.test"+uri, strings.NewReader(body))
		if err != nil {
			return
		}
		for k, v := range w.ReqHeader {
			req.Header[k] = v
		}
		res, err := e.C.Client.Do(req)
		cr := callResult{}
		if err == nil {
			cr.Err = restli.IsErrorResponse(res)
		} else {
			cr.Err = err
		}
		c := &c08Case{Mount: e.Mount.Name, Transport: "in-process", Method: mi.ID(), Kind: mi.Kind, Name: mi.Name,
			Scenario: c08Scenario{Kind: "value", Defect: defect}}
		c.Observed = observe(e, cr, nil)
		if c.Observed.Client == "ok" {
			c.Observed.Client = "ok-raw"
		}
		d.oracle(c, mi, nil, true)
		d.record(c, mi)
	}
	path, query := w.URI, ""
	if i := strings.Index(w.URI, "?"); i >= 0 {
		path, query = w.URI[:i], w.URI[i+1:]
	}
	// bad path: the entity key of an int64-keyed collection replaced by a segment that is valid ROR2 but not a number
	if mi.Spec.OnEntity {
		last := spec.Segs[len(spec.Segs)-1]
		if last.PathKey != nil && (last.PathKey.Type.Primitive == "int64" || (last.PathKey.Type.Reference != nil && last.PathKey.Type.Reference.Name == "Tlong")) {
			i := strings.LastIndex(path, "/")
			uri := path[:i+1] + "notanumber"
			if query != "" {
				uri += "?" + query
			}
			send("badpath", uri, w.ReqBody)
		}
	}
	// bad query: a required parameter (or the ids of a batch request) dropped
	if query != "" && mi.Spec.MethodType != "ACTION" {
		required := map[string]bool{"ids": true}
		for _, p := range mi.Spec.Params {
			if !p.IsOptional {
				required[p.Name] = true
			}
		}
		var kept []string
		dropped := false
		for _, kv := range strings.Split(query, "&") {
			k := kv
			if i := strings.Index(kv, "="); i >= 0 {
				k = kv[:i]
			}
			if required[k] && !dropped {
				dropped = true
				continue
			}
			kept = append(kept, kv)
		}
		if dropped {
			uri := path
			if len(kept) > 0 {
				uri += "?" + strings.Join(kept, "&")
			}
			send("badquery", uri, w.ReqBody)
		}
	}
	switch mi.Kind {
	case "Get", "GetAll", "BatchGet", "Delete", "BatchDelete", "Finder", "FinderWithMetadata":
		send("extrabody", w.URI, `{"a":1}`)
	case "Action":
		// no parameters: the body is not read
	default:
		if mi.Kind == "ActionWithResults" && len(mi.Spec.Params) == 0 {
			break
		}
		send("badbody", w.URI, `{"a":`)
	}
}

// method kinds that get the big error responses in the quick tier (one resource method of each reading style)
var bigKinds = map[string]bool{"Get": true, "Create": true, "Update": true, "BatchGet": true, "Finder": true, "ActionWithResults": true}

func runC08(cfg *hx.Config) {
	d := &c08{cfg: cfg, r: hx.NewRand(cfg.Seed), bigDone: map[string]bool{}}
	d.rep = hx.NewReport("every method of every resource of the family (checks/family.py RESOURCES through the REAL generator: collections keyed by int64 / string / " +
		"typeref / enum / complex key, simple, action set, sub- and sub-sub-resources, return-entity variants, read-only / create-only fields in every combination) x outcome of the " +
		"implementation {value, overridden ctx.ResponseStatus, CreatedEntity.Status, typed nil, nil element, ErrorResponse with each of the 64 subsets of " +
		"{status, message, serviceErrorCode+code, exceptionClass, errorDetails, docUrl+requestId+errorDetailType+stackTrace}, plain error, panic(string), " +
		"panic with an error value, a runtime error (nil map write, index out of range), a struct, http.ErrAbortHandler, an *ErrorResponse, a Stringer; " +
		"combinations with an overridden status; big error responses (message / stackTrace of 64 KiB, 1 MiB - 1 KiB, 1 MiB, 3 MiB, compared field by field at the " +
		"client, oracle only)} x mounting {bare handler, ServeMux, prefixed server} (full product on the bare handler, a " +
		"subset on the others), in-process through the serialized request plus a real-socket sample; servers with filters (lists of 1-3 filters whose PreRequest / PostRequest " +
		"pass, add context values and response headers, replace the request context with a cancelled one / one past its deadline, fail with a plain error, fail with an *ErrorResponse) x every method x {value, overridden status, plain error, panic, typed nil, " +
		"nil element, four error responses}; batch methods answering with a different error response for each of 2-3 keys and results for the rest (every key's error compared field by field at the client, no shared objects); overridden statuses 202, 200 (the status every request starts with), 201, 203, 204 (methods without result); malformed requests (bad key, missing required " +
		"parameter, undecodable body, unexpected body) per method; statuses outside 100..999 as probes. non-trivial = any outcome other than the plain value; " +
		"distinct by (method, outcome, fields)")
	d.sh = hx.NewShards(cfg.Out, "From Coq Require Import List ZArith.\nFrom Coq.Strings Require Import Byte.\nFrom GR Require Import Base.Bytes Gen.TablesStatus Http.Status Corr.C08Corr.\nImport ListNotations.\n", "C08Corr", 250)
	rs := buildResources()
	mounts := buildMountings(rs)
	for mi, m := range mounts {
		e := newEnv(m, clientCfg{})
		for _, r := range rs {
			for _, me := range r.Methods {
				d.scenarios(e, me, mi == 0 || cfg.Thorough(), false, "in-process")
				if mi == 0 {
					d.malformed(e, me)
					if bigKinds[me.Kind] && (cfg.Thorough() || !d.bigDone[me.Kind+"/in-process"]) {
						d.bigDone[me.Kind+"/in-process"] = true
						d.bigErrors(e, me, "in-process")
					}
				}
			}
		}
		e.close()
	}
	// servers with filters (every kind of PreRequest / PostRequest result, failing or not) x every method x a handful of outcomes
	for _, m := range buildFilteredMountings(rs) {
		e := newEnv(m, clientCfg{})
		for _, r := range rs {
			for _, me := range r.Methods {
				d.scenarios(e, me, false, true, "in-process")
			}
		}
		e.close()
	}
	// real sockets: every method, a handful of outcomes
	{
		e := newEnv(mounts[0], clientCfg{Socket: true})
		for _, r := range rs {
			for _, me := range r.Methods {
				d.scenarios(e, me, false, false, "socket")
				if bigKinds[me.Kind] && !d.bigDone[me.Kind+"/socket"] {
					d.bigDone[me.Kind+"/socket"] = true
					d.bigErrors(e, me, "socket")
				}
			}
		}
		e.close()
	}
	d.rangeProbes(rs, mounts)
	d.sh.Close()
	d.rep.Shards = d.sh.Files
	d.rep.Extra["resources"] = len(rs)
	nm := 0
	for _, r := range rs {
		nm += len(r.Methods)
	}
	d.rep.Extra["methods"] = nm
	d.rep.Write(cfg.Out)
}

// statuses net/http refuses to write (outside 100..999): ServeHTTP's status guard must answer a 500 error response (Props/C08 no_crash, invalid_status_is_500)
func (d *c08) rangeProbes(rs []*resInfo, mounts []*mounting) {
	for _, transport := range []string{"in-process", "socket"} {
		e := newEnv(mounts[0], clientCfg{Socket: transport == "socket"})
		for _, r := range rs {
			for _, mi := range r.Methods {
				if mi.Kind != "Get" && mi.Kind != "Create" && mi.Kind != "Action" {
					continue
				}
				probe := func(what string, sc *scenario, desc c08Scenario) {
					desc.Probe = what
					c := d.runCase(e, mi, sc, desc, transport)
					o := &c.Observed
					switch {
					case o.Crashed:
						d.rep.Fail("crash:status-out-of-range:"+what, "a status outside 100..999 ("+what+") makes net/http's WriteHeader panic outside any recover: the connection is dropped instead of a 500 error response",
							"v2/restli/handler.go ServeHTTP: res.WriteHeader(ctx.ResponseStatus)", c, nil)
					case o.Status != 500 || !o.ErrHeader || o.Body != "error" || o.Client != "restli-error" || o.ClientErr.Status == nil || *o.ClientErr.Status != 500:
						d.rep.Fail("invalid-status:not-a-500-error-response:"+what, "a status outside 100..999 ("+what+") is not turned into a 500 error response",
							"v2/restli/handler.go ServeHTTP: status guard before serialization", c, nil)
					case o.ClientErr.Message == nil || !strings.Contains(*o.ClientErr.Message, "nvalid response status"):
						d.rep.Fail("invalid-status:message:"+what, "the 500 answering an invalid status does not say so", "v2/restli/handler.go ServeHTTP: status guard", c, nil)
					}
				}
				for _, st := range []int32{0, 99, 1000} {
					probe("error-response-status", &scenario{Kind: "errresp", Err: buildErr(3, st), Created: -1, Rand: d.r.Fork(), Tame: true},
						c08Scenario{Kind: "errresp"})
				}
				probe("overridden-status", &scenario{Kind: "value", Override: 1000, Created: 0, Rand: d.r.Fork(), Tame: true},
					c08Scenario{Kind: "value", Override: 1000})
				if mi.Kind == "Get" {
					// a nil result AND an invalid overridden status: the guard answers before serialization (Props/C08.nil_override_witness)
					probe("overridden-status-with-nil-result", &scenario{Kind: "typednil", Override: 1000, Created: -1, Rand: d.r.Fork(), Tame: true},
						c08Scenario{Kind: "typednil", Override: 1000})
				}
				if isCreate(mi) {
					probe("created-entity-status", &scenario{Kind: "value", Created: 42, Rand: d.r.Fork(), Tame: true},
						c08Scenario{Kind: "value", Created: 42})
				}
			}
		}
		e.close()
	}
}

// ---- mode c08race: concurrent requests sharing one error object (run from a -race build; the race detector reports)
func runC08Race(cfg *hx.Config) {
	rep := hx.NewReport("N concurrent requests per method kind whose implementation returns one shared *ErrorResponse (message unset, so the server has to " +
		"default it), under the race detector; afterwards the shared object must be unchanged")
	rs := buildResources()
	mounts := buildMountings(rs)
	r := hx.NewRand(cfg.Seed)
	n := 16
	if cfg.Thorough() {
		n = 64
	}
	for _, transport := range []string{"in-process", "socket"} {
		e := newEnv(mounts[0], clientCfg{Socket: transport == "socket"})
		for _, res := range rs {
			for _, mi := range res.Methods {
				for _, bits := range []int{0, 1, 4} {
					shared := buildErr(bits, 409)
					before := fieldsOf(shared).key()
					setScenario(&scenario{Kind: "errresp", Err: shared, Created: -1, Tame: true})
					m := e.clientMethod(mi)
					var wg sync.WaitGroup
					argsets := make([][]reflect.Value, n)
					for i := range argsets {
						argsets[i] = genArgs(&genv{r: r.Fork(), tame: true}, mi, m.Type())
					}
					bad := 0
					var bmu sync.Mutex
					for i := 0; i < n; i++ {
						wg.Add(1)
						go func(i int) {
							defer wg.Done()
							cr := callClient(m, argsets[i])
							if _, ok := cr.Err.(*restli.Error); !ok {
								bmu.Lock()
								bad++
								bmu.Unlock()
							}
						}(i)
					}
					wg.Wait()
					rep.Evaluations += n
					rep.Count("transport=" + transport)
					rep.Count("register=" + mi.Kind)
					rep.Distinct(mi.ID()+strconv.Itoa(bits)+transport, true)
					if fieldsOf(shared).key() != before {
						rep.Fail("error-object-modified", "the shared error object was modified by concurrent requests", c08Site,
							map[string]interface{}{"method": mi.ID(), "bits": bits, "transport": transport}, nil)
					}
					if bad > 0 {
						rep.Fail("race:client-not-error", "a concurrent request sharing an error object did not return a *restli.Error", c08Site,
							map[string]interface{}{"method": mi.ID(), "bits": bits, "transport": transport, "bad": bad}, nil)
					}
				}
			}
		}
		e.close()
	}
	rep.Write(cfg.Out)
	fmt.Fprintln(os.Stderr, "c08race: done")
}
