package main

// C02: end-to-end call fidelity.  Every generated client method of every family resource x seeded arguments (byte pool of
// genString: reserved URL and ROR2 characters, %, empty strings, non-ASCII, "." and "..", complex keys) x client
// configuration x mounting.  The mock resource records what it was called with and returns a seeded value; the oracle
// compares arguments passed / seen and value returned / received; the recording transport keeps the request for the model.

import (
	"encoding/json"
	"fmt"
	"reflect"
	"sort"
	"strings"

	"verifgen/hx"
)

type c02Wire struct {
	Verb     string `json:"verb"`
	URI      string `json:"uri"`
	Method   string `json:"x_restli_method"`
	Override string `json:"x_http_method_override,omitempty"`
	CT       string `json:"content_type,omitempty"`
	Body     string `json:"body,omitempty"`
	Status   int    `json:"status"`
	ResID    string `json:"x_restli_id,omitempty"`
	Location string `json:"location,omitempty"`
}

type c02Case struct {
	Mount     string        `json:"mount"`
	Context   string        `json:"context_path"`
	Cfg       clientCfg     `json:"client"`
	Method    string        `json:"method"`
	Register  string        `json:"register"`
	Args      []interface{} `json:"args"`
	Wire      *c02Wire      `json:"wire,omitempty"`
	Invoked   []string      `json:"invoked"`
	Seen      []interface{} `json:"seen_by_resource,omitempty"`
	Returned  interface{}   `json:"returned_by_resource,omitempty"`
	Got       interface{}   `json:"received_by_caller,omitempty"`
	ClientErr string        `json:"client_error,omitempty"`
	Note      string        `json:"note,omitempty"`
}

const c02Site = "v2/restli/http.go (newRequest, formatQueryUrl), handler.go (ServeHTTP, receive, registerMethod*), generated ResourcePath / " +
	"EncodeQueryParams / RegisterResource (codegen/resources)"

type c02 struct {
	cfg  *hx.Config
	rep  *hx.Report
	sh   *hx.Shards
	r    *hx.Rand
	byID map[string]*methodInfo
}

// expected view of what the caller receives, given what the resource returned: the statuses the protocol defaults
func normalizeReturned(kind string, v interface{}, httpStatus int) interface{} {
	var fix func(x interface{}, created bool) interface{}
	fix = func(x interface{}, created bool) interface{} {
		switch t := x.(type) {
		case map[string]interface{}:
			out := map[string]interface{}{}
			for k, e := range t {
				out[k] = fix(e, created)
			}
			if st, ok := out["Status"]; ok && st == "i:0" {
				if _, isCreated := out["Id"]; isCreated || created {
					out["Status"] = "i:201"
				} else if len(out) == 1 {
					out["Status"] = "i:204" // BatchEntityUpdateResponse
				}
			}
			if ce, ok := out["CreatedEntity"].(map[string]interface{}); ok {
				if ce["Status"] == "i:0" {
					ce["Status"] = "i:201"
				}
			}
			return out
		case []interface{}:
			out := make([]interface{}, len(t))
			for i, e := range t {
				out[i] = fix(e, created)
			}
			return out
		}
		return x
	}
	return fix(v, false)
}

func hasDotKey(args []reflect.Value, n int) bool {
	for i := 0; i < n && i < len(args); i++ {
		a := args[i]
		if a.Kind() == reflect.String && (a.String() == "." || a.String() == "..") {
			return true
		}
	}
	return false
}

func stringsOf(v reflect.Value, out *[]string) {
	switch v.Kind() {
	case reflect.Ptr, reflect.Interface:
		if !v.IsNil() {
			stringsOf(v.Elem(), out)
		}
	case reflect.String:
		*out = append(*out, v.String())
	case reflect.Struct:
		for i := 0; i < v.NumField(); i++ {
			stringsOf(v.Field(i), out)
		}
	case reflect.Slice:
		if v.Type().Elem().Kind() == reflect.Uint8 {
			*out = append(*out, string(v.Bytes()))
			return
		}
		for i := 0; i < v.Len(); i++ {
			stringsOf(v.Index(i), out)
		}
	case reflect.Array:
		b := make([]byte, v.Len())
		for i := range b {
			b[i] = byte(v.Index(i).Uint())
		}
		*out = append(*out, string(b))
	case reflect.Map:
		for _, k := range v.MapKeys() {
			stringsOf(k, out)
			stringsOf(v.MapIndex(k), out)
		}
	}
}

// does the value hold a string a net/http header cannot carry unchanged: a control byte, or leading / trailing blanks
func headerHostile(v reflect.Value) string {
	var ss []string
	stringsOf(v, &ss)
	for _, s := range ss {
		for i := 0; i < len(s); i++ {
			if s[i] < 0x20 || s[i] == 0x7f {
				return "control-byte"
			}
		}
	}
	for _, s := range ss {
		if strings.HasPrefix(s, " ") || strings.HasSuffix(s, " ") {
			return "edge-space"
		}
	}
	return ""
}

// a string path key whose decoded form makes the decoded request path unclean ('/' next to a segment boundary, "//",
// or a "." / ".." component): net/http's ServeMux answers such paths with a redirect
func slashKey(args []reflect.Value, n int) bool {
	for i := 0; i < n && i < len(args); i++ {
		var ss []string
		stringsOf(args[i], &ss)
		for _, s := range ss {
			if strings.Contains(s, "/") {
				return true
			}
		}
	}
	return false
}

func plainBytes(s string) bool {
	for i := 0; i < len(s); i++ {
		c := s[i]
		if !(c >= 'a' && c <= 'z' || c >= 'A' && c <= 'Z' || c >= '0' && c <= '9' || c == '_') {
			return false
		}
	}
	return true
}

func sortedCanon(l []interface{}) []string {
	out := make([]string, len(l))
	for i, x := range l {
		b, _ := json.Marshal(x)
		out[i] = string(b)
	}
	sort.Strings(out)
	return out
}

func sameJSON(a, b interface{}) bool {
	x, _ := json.Marshal(a)
	y, _ := json.Marshal(b)
	return string(x) == string(y)
}

func (d *c02) runCall(e *env, mi *methodInfo) {
	sc := &scenario{Kind: "value", Created: -1, Rand: d.r.Fork()}
	setScenario(sc)
	e.T.reset()
	m := e.clientMethod(mi)
	g := &genv{r: d.r.Fork()}
	args := genArgs(g, mi, m.Type())
	c := &c02Case{Mount: e.Mount.Name, Context: e.Mount.Context, Cfg: e.Cfg, Method: mi.ID(), Register: mi.Kind}
	for _, a := range args {
		c.Args = append(c.Args, canon(a))
	}
	cr := callClient(m, args)
	invs := invocations()
	for _, iv := range invs {
		c.Invoked = append(c.Invoked, iv.Method)
	}
	w := e.T.last()
	if w != nil {
		c.Wire = &c02Wire{Verb: w.Verb, URI: w.URI, Method: w.ReqHeader.Get("X-RestLi-Method"), Override: w.ReqHeader.Get("X-HTTP-Method-Override"),
			CT: w.ReqHeader.Get("Content-Type"), Body: w.ReqBody, Status: w.Status, ResID: w.ResHeader.Get("X-RestLi-Id"), Location: w.ResHeader.Get("Location")}
	}
	if cr.Err != nil {
		c.ClientErr = fmt.Sprintf("%T", cr.Err)
	}
	if cr.Paniced != "" {
		c.ClientErr = "panic: " + cr.Paniced
	}
	fail := func(sig, what string) { d.rep.Fail(sig, what, c02Site, c, nil) }
	var ss []string
	for _, a := range args {
		stringsOf(a, &ss)
	}
	nontrivial := false
	for _, s := range ss {
		if !plainBytes(s) || s == "" {
			nontrivial = true
		}
	}
	d.rep.Evaluations++
	d.rep.Count("mount=" + c.Mount)
	d.rep.Count("register=" + mi.Kind)
	d.rep.Count(fmt.Sprintf("threshold=%d", e.Cfg.Threshold))
	d.rep.Count(fmt.Sprintf("strict=%v", e.Cfg.Strict))
	d.rep.Count(fmt.Sprintf("socket=%v", e.Cfg.Socket))
	if c.Wire != nil {
		d.rep.Count("tunnelled=" + fmt.Sprint(c.Wire.Override != ""))
		d.rep.Count(fmt.Sprintf("status=%d", c.Wire.Status))
	}
	ab, _ := json.Marshal(c.Args)
	d.rep.Distinct(mi.ID()+string(ab), nontrivial)
	if nontrivial {
		d.rep.Sample(c)
	}

	// ---- the case for the model (everything except what ServeMux does with an escaped '/' inside a key, which the
	// routing model's mux_clean does not see: those are reported by the oracle below)
	if w != nil && !w.Crashed && cr.Paniced == "" && len(invs) <= 1 && !(c.Mount == "servemux" && slashKey(args, mi.NKeys) && w.Status == 301) {
		var ran *methodInfo
		if len(invs) == 1 {
			ran = d.byID[invs[0].Method]
		}
		d.sh.Add(c.coq(e, mi, args, ran), c)
	}

	// ---- the property's predicate
	switch {
	case cr.Paniced != "":
		fail("client-panic:"+mi.Kind, "the generated client panicked")
		return
	case w == nil:
		fail("no-request:"+mi.Kind+":"+c.ClientErr, "the client returned an error without sending a request for valid arguments")
		return
	case len(invs) == 0:
		switch {
		case c.Mount == "servemux" && hasDotKey(args, mi.NKeys) && w.Status == 301:
			fail("mount:servemux-redirects-dot-segment", "through AddToMux / http.ServeMux a string entity key \".\" or \"..\" (sent unescaped by the client) is answered with a 301 to the cleaned path: the call never reaches the resource")
		case c.Mount == "servemux" && slashKey(args, mi.NKeys) && w.Status == 301:
			fail("mount:servemux-redirects-slash-in-key", "through AddToMux / http.ServeMux a path key containing '/' (sent as %2F by the client) whose decoded form makes the decoded path unclean (\"//\", a trailing '/' before the next segment, a '.' component) is answered with a 301: the call never reaches the resource")
		case w.Crashed:
			fail("dispatch:connection-crashed:"+mi.Kind, "the connection crashed")
		default:
			fail(fmt.Sprintf("dispatch:not-invoked:%d:%s", w.Status, mi.Kind), "the call did not reach the resource implementation")
		}
		return
	case len(invs) > 1 || invs[0].Method != mi.ID():
		fail("dispatch:wrong-method:"+mi.Kind, "the call reached another method of the resource implementation")
		return
	}
	iv := invs[0]
	c.Seen = iv.Args
	c.Returned = iv.Result
	// arguments: position by position; batch key slices as sets (the key set's wire order is not the caller's)
	for i := range args {
		role := "argument"
		switch {
		case i < mi.NKeys:
			role = "path-key"
		case args[i].Kind() == reflect.Ptr && strings.HasSuffix(args[i].Type().Elem().Name(), "Params"):
			role = "params"
			if mi.Spec.MethodType == "ACTION" {
				role = "action-params"
			}
		case args[i].Kind() == reflect.Slice && (mi.Spec.Name == "batch_get" || mi.Spec.Name == "batch_delete"):
			role = "batch-keys"
		case args[i].Kind() == reflect.Map:
			role = "batch-entities"
		default:
			role = "body"
		}
		same := false
		if i < len(iv.Args) {
			if role == "batch-keys" {
				a, _ := c.Args[i].([]interface{})
				b, _ := iv.Args[i].([]interface{})
				same = sameJSON(sortedCanon(a), sortedCanon(b))
			} else {
				same = sameJSON(c.Args[i], iv.Args[i])
			}
		}
		if !same {
			fail("args-differ:"+role+":"+mi.Kind, "the "+role+" seen by the resource implementation differs from what the caller passed")
			return
		}
	}
	// reply
	if cr.Err != nil {
		if (mi.Kind == "Create" || mi.Kind == "CreateWithReturnEntity") && iv.RawRes.IsValid() && headerHostile(iv.RawRes) != "" {
			fail("created-id:"+headerHostile(iv.RawRes)+"-in-header:client-error", "a created id holding a control byte / an edge blank cannot travel in X-RestLi-Id (the header flavour leaves them raw; net/http rewrites, trims or rejects them): the client call fails")
			return
		}
		fail("reply:client-error:"+mi.Kind+":"+c.ClientErr, "the call reached the resource and succeeded there, but the client returns an error")
		return
	}
	if len(cr.Outs) > 0 {
		c.Got = canon(cr.Outs[0])
		want := normalizeReturned(mi.Kind, iv.Result, w.Status)
		if !sameJSON(c.Got, want) {
			if (mi.Kind == "Create" || mi.Kind == "CreateWithReturnEntity") && headerHostile(iv.RawRes) != "" {
				fail("created-id:"+headerHostile(iv.RawRes)+"-in-header", "a created id holding a control byte (or a leading / trailing blank) comes back altered: the header flavour of ROR2 leaves them raw and net/http rewrites control bytes to spaces and trims blanks in X-RestLi-Id")
				return
			}
			fail("reply:value-differs:"+mi.Kind, "the value the caller receives differs from the value the resource implementation returned")
		}
	}
}

func runC02(cfg *hx.Config) {
	d := &c02{cfg: cfg, r: hx.NewRand(cfg.Seed)}
	d.rep = hx.NewReport("every generated client method of the 12 family resources (REAL generator) x seeded arguments (keys, parameters, paging, entities, " +
		"patches, batch keys / entities; strings from the byte pool: reserved URL and ROR2 characters, %, +, space, quotes, control bytes, empty, '.', '..', " +
		"non-ASCII, invalid UTF-8 in URL positions; complex keys with $params) x client configuration (tunnelling threshold 0 / 1 / large, strict / lenient, " +
		"base URL with the mounting's context path) x mounting (bare handler, ServeMux, prefixed server), in-process through the serialized request and " +
		"response plus a real-socket sample; the mock returns a seeded value (entities, elements + paging + metadata, action results, created id + status, " +
		"per-key batch results / statuses / errors). non-trivial = some argument string is empty or has a byte outside [A-Za-z0-9_]; distinct by (method, arguments)")
	rs := buildResources()
	mounts := buildMountings(rs)
	d.byID = map[string]*methodInfo{}
	for _, r := range rs {
		for _, me := range r.Methods {
			d.byID[me.ID()] = me
		}
	}
	d.sh = hx.NewShards(cfg.Out, c02Header(rs), "C02Corr", 200)
	n := 6
	if cfg.Thorough() {
		n = 60
	}
	cfgs := []clientCfg{{Threshold: 0}, {Threshold: 1, Strict: true}, {Threshold: 100000}}
	for _, m := range mounts {
		for _, cc := range cfgs {
			e := newEnv(m, cc)
			for _, r := range rs {
				for _, me := range r.Methods {
					for i := 0; i < n; i++ {
						d.runCall(e, me)
					}
				}
			}
			e.close()
		}
	}
	// real sockets
	for _, m := range mounts {
		e := newEnv(m, clientCfg{Threshold: 0, Socket: true})
		for _, r := range rs {
			for _, me := range r.Methods {
				for i := 0; i < 2; i++ {
					d.runCall(e, me)
				}
			}
		}
		e.close()
	}
	d.sh.Close()
	d.rep.Shards = d.sh.Files
	d.rep.Write(cfg.Out)
}
