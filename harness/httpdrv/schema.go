package main

import (
	"encoding/json"
	"fmt"
	"os"
	"strings"

	"github.com/PapaCharlie/go-restli/v2/codegen/utils"
)

// ---- the family schema as read from schema.json (written by checks/family.py) ----
type RType struct {
	Primitive string `json:"primitive,omitempty"`
	Reference *struct {
		Name      string `json:"name"`
		Namespace string `json:"namespace"`
	} `json:"reference,omitempty"`
	Array *RType `json:"array,omitempty"`
	Map   *RType `json:"map,omitempty"`
}

type Field struct {
	Name         string  `json:"name"`
	Type         RType   `json:"type"`
	IsOptional   bool    `json:"isOptional"`
	DefaultValue *string `json:"defaultValue,omitempty"`
}

type Named struct {
	Kind     string
	Name     string
	Includes []string
	Fields   []Field
	Symbols  []string
	Size     int
	Prim     string
	HasNull  bool
	Members  []struct {
		Type  RType
		Alias string
	}
	Key, Params string
}

type Schema struct {
	Types     map[string]*Named
	Order     []string
	Top       []string
	EnvIndex  map[string]int
	Resources []*ResourceSpec
}

// ---- resource specifications (the manifest entries written by checks/family.py)
type PathSeg struct {
	ResourceName string `json:"resourceName"`
	PathKey      *struct {
		Name string `json:"name"`
		Type RType  `json:"type"`
	} `json:"pathKey"`
}

type MethodSpec struct {
	MethodType   string  `json:"methodType"` // REST_METHOD FINDER ACTION
	Name         string  `json:"name"`
	OnEntity     bool    `json:"onEntity"`
	Params       []Field `json:"params"`
	Paging       bool    `json:"isPagingSupported"`
	Return       *RType  `json:"return"`
	Metadata     *RType  `json:"metadata"`
	ReturnEntity bool    `json:"returnEntity"`
}

type ResourceSpec struct {
	Namespace  string       `json:"namespace"`
	Segs       []PathSeg    `json:"resourcePathSegments"`
	Schema     *RType       `json:"resourceSchema"`
	ReadOnly   []string     `json:"readOnlyFields"`
	CreateOnly []string     `json:"createOnlyFields"`
	Methods    []MethodSpec `json:"methods"`
}

// Name: the path of resource names, e.g. "strs/subs/leaves"
func (r *ResourceSpec) Name() string {
	names := make([]string, len(r.Segs))
	for i, s := range r.Segs {
		names[i] = s.ResourceName
	}
	return strings.Join(names, "/")
}

func (r *ResourceSpec) IsCollection() bool { return r.Segs[len(r.Segs)-1].PathKey != nil }

func loadSchema(path string) *Schema {
	b, err := os.ReadFile(path)
	if err != nil {
		panic(err)
	}
	var raw struct {
		Types     []map[string]json.RawMessage `json:"types"`
		Top       []string                     `json:"top"`
		EnvIndex  map[string]int               `json:"envIndex"`
		Resources []*ResourceSpec              `json:"resources"`
	}
	if err := json.Unmarshal(b, &raw); err != nil {
		panic(err)
	}
	s := &Schema{Types: map[string]*Named{}, Top: raw.Top, EnvIndex: raw.EnvIndex, Resources: raw.Resources}
	for _, t := range raw.Types {
		for kind, body := range t {
			var d struct {
				Name     string `json:"name"`
				Includes []struct {
					Name string `json:"name"`
				} `json:"includes"`
				Fields  []Field  `json:"fields"`
				Symbols []string `json:"Symbols"`
				Size    int      `json:"Size"`
				Type    string   `json:"type"`
				Union   struct {
					HasNull bool
					Members []struct {
						Type  RType
						Alias string
					}
				} `json:"Union"`
				Key struct {
					Name string `json:"name"`
				} `json:"Key"`
				Params struct {
					Name string `json:"name"`
				} `json:"Params"`
			}
			if err := json.Unmarshal(body, &d); err != nil {
				panic(fmt.Sprint(kind, err))
			}
			n := &Named{Kind: kind, Name: d.Name, Fields: d.Fields, Symbols: d.Symbols, Size: d.Size, Prim: d.Type,
				HasNull: d.Union.HasNull, Members: d.Union.Members, Key: d.Key.Name, Params: d.Params.Name}
			for _, i := range d.Includes {
				n.Includes = append(n.Includes, i.Name)
			}
			s.Types[d.Name] = n
			s.Order = append(s.Order, d.Name)
		}
	}
	return s
}

func ref(name string) RType {
	t := RType{}
	t.Reference = &struct {
		Name      string `json:"name"`
		Namespace string `json:"namespace"`
	}{Name: name, Namespace: "fam"}
	return t
}

// Go field name of a record field / union member in the generated struct
func goFieldName(name string) string { return utils.ExportedIdentifier(name) }
func goMemberName(alias string) string {
	return utils.ExportedIdentifier(alias[strings.LastIndex(alias, ".")+1:])
}

var primCoq = map[string]string{"int32": "PInt", "int64": "PLong", "float32": "PFloat", "float64": "PDouble", "bool": "PBool", "string": "PString", "bytes": "PBytes"}

func (s *Schema) coqTy(t RType) string {
	switch {
	case t.Primitive != "":
		return "(TPrim " + primCoq[t.Primitive] + ")"
	case t.Array != nil:
		return "(TArray " + s.coqTy(*t.Array) + ")"
	case t.Map != nil:
		return "(TMap " + s.coqTy(*t.Map) + ")"
	}
	n := s.Types[t.Reference.Name]
	switch n.Kind {
	case "enum":
		items := make([]string, len(n.Symbols))
		for i, sym := range n.Symbols {
			items[i] = coqBytes(sym)
		}
		return "(TEnum [" + strings.Join(items, ";") + "])"
	case "fixed":
		return fmt.Sprintf("(TFixed %d)", n.Size)
	case "typeref":
		return "(TPrim " + primCoq[n.Prim] + ")"
	}
	return fmt.Sprintf("(TRef %d)", s.EnvIndex[n.Name])
}

func coqBytes(s string) string {
	var sb strings.Builder
	sb.WriteByte('[')
	for i := 0; i < len(s); i++ {
		if i > 0 {
			sb.WriteByte(';')
		}
		fmt.Fprintf(&sb, "x%02x", s[i])
	}
	sb.WriteByte(']')
	return sb.String()
}
