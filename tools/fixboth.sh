#!/bin/bash
# usage: tools/fixboth.sh "<commit message>"   -- takes the uncommitted diff of /repo/v2/<paths>, applies the same change to the
# root-module copy (path v2/x -> x, common. -> restlidata.), shows the result. Does not commit.
cd /repo || exit 1
git diff -- "$@" > /tmp/fix_v2.diff
sed -e 's#a/v2/#a/#; s#b/v2/#b/#' -e 's/common\./restlidata./g' /tmp/fix_v2.diff > /tmp/fix_root.diff
git apply --check /tmp/fix_root.diff && git apply /tmp/fix_root.diff && echo "applied to root module" || echo "ROOT: patch does not apply"
git status --short
