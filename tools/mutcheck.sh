#!/bin/bash
# usage: tools/mutcheck.sh <patch.diff> <Cxx> [quick|thorough]
# Runs ./check Cxx against a scratch worktree of /repo with the patch applied, from a scratch copy of /verif.
# /repo and /verif themselves are never touched (safe while other builders work).
set -u
patch=$(readlink -f "$1"); pid=$2; tier=${3:-quick}
wt=$(mktemp -d /tmp/mutwt-XXXXXX); vc=$(mktemp -d /tmp/mutvf-XXXXXX)
cleanup() { git -C /repo worktree remove --force "$wt" >/dev/null 2>&1; rm -rf "$wt" "$vc"; git -C /repo worktree prune; }
trap cleanup EXIT
rmdir "$wt"; git -C /repo worktree add -q --detach "$wt" HEAD || exit 9
# carry over uncommitted hook files of /repo (untracked) so that drivers still build
(cd /repo && git ls-files -o --exclude-standard -z | xargs -0 -r -I{} cp --parents {} "$wt"/ 2>/dev/null)
(cd /repo && git diff HEAD) | git -C "$wt" apply --allow-empty 2>/dev/null
git -C "$wt" apply "$patch" || { echo "patch does not apply"; exit 9; }
rsync -a --exclude .git --exclude replays --exclude evidence --exclude build /verif/ "$vc"/
mkdir -p "$vc/replays" "$vc/evidence" "$vc/build"
cd "$vc" && VERIF_REPO="$wt" timeout 3000 ./check "$pid" --tier "$tier" 2>&1 | tail -${MUT_TAIL:-12}
rc=${PIPESTATUS[0]}
ls "$vc"/replays/ 2>/dev/null | head -3
for f in "$vc"/replays/*.json; do [ -f "$f" ] && head -c ${MUT_REPLAY_BYTES:-1500} "$f" && echo && break; done
exit $rc
