#!/usr/bin/env python3
"""Regenerates seeded/INDEX.md from the meta.json files."""
import glob, json, os
V = os.path.dirname(os.path.dirname(os.path.abspath(__file__)))
rows = []
for m in sorted(glob.glob(os.path.join(V, "seeded", "*", "*", "meta.json"))):
    d = json.load(open(m))
    pid = os.path.basename(os.path.dirname(os.path.dirname(m)))
    name = os.path.basename(os.path.dirname(m))
    caught = d.get("caught", d.get("result", ""))
    rows.append((pid, name, str(caught), str(d.get("needs_to_manifest", d.get("needs", "")))[:120]))
with open(os.path.join(V, "seeded", "INDEX.md"), "w") as f:
    f.write("# Seeded property-breaking changes and whether `./check <property>` (quick tier) reports them\n\n| property | change | reported | needs |\n|---|---|---|---|\n")
    for r in rows:
        f.write("| %s | %s | %s | %s |\n" % r)
print(len(rows), "seeded changes")
