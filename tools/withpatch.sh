#!/bin/bash
# usage: tools/withpatch.sh <patch.diff> <command...>  -- apply a patch to /repo, run the command, always undo the patch
p=$(readlink -f "$1"); shift
git -C /repo apply "$p" || { echo "patch does not apply"; exit 9; }
trap 'git -C /repo checkout -- . ; git -C /repo clean -fdq' EXIT
"$@"
