#!/usr/bin/env python3
"""Regenerates /verif/MANIFEST.json from the table below (keeps it valid at all times)."""
import json, os, subprocess
V = os.path.dirname(os.path.dirname(os.path.abspath(__file__)))
ALL = ["C%02d" % i for i in range(1, 21)]

CLAIMED = {
 "C20": dict(
  text="Machine-checked proof (Coq 8.16.1) that the model of CleanTargetDir preserves every non-owned file at its path "
       "with its content (also when the clean aborts), removes only owned files and directories whose files were all owned, "
       "creates nothing, is idempotent, keeps '.', and that the ownership constants re-read from /repo are specific; the model "
       "is tied to the code by running the real CleanTargetDir (both module generations) on ~19k directory trees per run and "
       "evaluating the model on the same trees inside Coq (vm_compute), plus the property's predicates evaluated directly on "
       "the implementation's result.",
  note="Trusted: Coq kernel; translator (GeneratedFileSuffix / ManifestFile constants); the cases_*.v generator and Go driver; "
       "the file system is modelled (sorted directory listings, os.Remove semantics), symlinks/permissions not modelled. "
       "'Regeneration reproduces the same files' is exercised under C12, not proved here. No axioms (Print Assumptions: closed).",
  technique="Rocq proof over a tree model of CleanTargetDir + translator-regenerated constants + differential correspondence (vm_compute on cases.v)",
  design="5/C20"),
}

CODEC_NOTE = ("Trusted: Coq kernel (coqc 8.16.1; vm_compute for table sweeps and for evaluating the model on cases), the translator (escape tables, markers), "
              "the Go driver harness/codecdrv compiled at check time against bindings produced by the REAL generator of the current tree from the family "
              "manifest (checks/family.py), the generated cases_*.v. Modelled, not verified: strconv float text (the driver records Go's own text / parse result per "
              "float: the oracle is strconv), easyjson's lexer (strict RFC 8259 parser Codec/Json.v, claimed only on well-formed documents), net/url unescaping. "
              "v2 is the modelled generation; the root module is exercised through the same family pushed through the real root generator, with the v2 model instantiated on the flattened environment "
              "(C01 C04 C06 C07 C10 C11 C13 C16; C09 is a v2-only property; root partial-update bindings: oracle only). Custom typerefs are not modelled. No axioms (Print Assumptions: closed).")

def codec(text, technique, design):
    return dict(text=text, note=CODEC_NOTE, technique=technique, design=design)

CLAIMED.update({
 "C01": codec("Coq proofs that every escaper of the current tree is inverted by the matching decoder for ALL byte strings and that integer text round-trips "
              "(more round-trip theorems over the cursor-level ROR2 reader are being added in Props/C01_ror2.v), about an executable model of the generated "
              "marshal/unmarshal code + restlicodec writers/readers; the model is tied to the code on every run: ~2.3k family values (byte pool with every metacharacter, "
              "single-byte sweep over all 256 bytes in values/keys/bytes) are encoded by the real bindings in the 5 wire formats and decoded back, the model must produce the "
              "same bytes and the same decoded value, and the round-trip predicate (Equals + structural equality) is evaluated on the implementation directly.",
              "Rocq proof over a schema-generic encoder/decoder model + translator-regenerated escape tables + differential correspondence through the real generator", "5/C01"),
 "C04": codec("Coq proof, for ALL byte strings, schemas and types, that the cursor-level ROR2 reader model (every Go index expression explicit) and the JSON tree decoder never reach "
              "a panic (decR_never_panics, decode_ror2_never_panics, decJ_never_panics) with the lemmas showing why (each index is guarded; the strict '>' of atArray is needed); "
              "correspondence: every string up to length 3 (quick) / 5 (thorough) over the ROR2 delimiter alphabet x 6 family types x 2 readers, and truncations/single-byte edits of valid "
              "encodings, decoded by the real readers - outcome class and value must equal the model's; JSON bodies: no-panic oracle only (the lexer is external).",
              "Rocq no-panic proof of a cursor-level reader model + exhaustive bounded-alphabet differential correspondence", "5/C04"),
 "C06": codec("Executable model of readRecord / the missing-field tracker / generated UnmarshalField (JSON tree level and ROR2 cursor level) with theorems being added (Props/C06.v); "
              "correspondence + independent oracle: reference encodings of family values mutated by deleting random field subsets at every depth, nulling, permuting keys and injecting unknown "
              "fields, decoded by the JSON, ROR2, query-parameter (aggregate) and untyped readers; the reported field set must equal the independently computed set of absent required fields and "
              "the model must agree on class, field list and partial value.",
              "Rocq model of the decoders + independent missing-set oracle + differential correspondence", "5/C06"),
 "C07": codec("Coq proofs for ALL directive sets / paths / values: ps_matches (genericMatches) is equivalent to an independent declarative specification exactly under a characterised "
              "well-formedness condition (weakest premise proved), whole subtrees are excluded, the reader rejects iff the scope matches after dropping the ignored leading scope, excluded required fields "
              "are never reported missing, and the writer's output with an exclusion spec is exactly the pruning of its output without (writer_omits_exactly); refuted corner cases kept as witnesses; "
              "correspondence: writers and readers constructed WithExcludedFields on family values x random specs, bytes/outcomes equal the model's, plus an independent prune/carries oracle.",
              "Rocq proof of PathSpec matching vs a declarative spec + writer/reader exclusion lemmas + differential correspondence", "5/C07"),
 "C09": codec("Coq proofs for ALL values: the encoder model's output is invariant under permutation of map entries at any depth (encode_perm_invariant, all five formats), object keys are strictly "
              "ascending (keys_ascending under wf_env), sort_entries is a sorted permutation and sorted permutations with unique keys are equal; correspondence: values with maps encoded 8x in-process "
              "and in fresh processes (different hash seeds), shuffled query parameters; all outputs identical and equal to the model's.",
              "Rocq proof of permutation invariance of the canonical encoder + multi-process differential correspondence", "5/C09"),
 "C11": codec("Executable model of union/enum/fixed validation on encode and decode with theorems being added (Props/C11.v); correspondence + oracle: values drawn with violations allowed "
              "(all member subsets, illegal enum constants) must fail to encode iff invalid; invalid documents (0/2 members, unknown alias, fixed of every length 0..7, unknown enum symbols) must be rejected "
              "/ decode to the unknown constant; model agrees on every outcome. Partial-update (patch) constraints are not modelled: that part of C11 is not decided.",
              "Rocq model of validity constraints + exhaustive small-domain differential correspondence", "5/C11"),
 "C13": codec("Executable model of populateLocalDefaultValues / decode-time default filling with theorems being added (Props/C13.v); correspondence + oracle: documents omitting random subsets of defaulted "
              "fields (direct, nested, included) decoded by the JSON, ROR2 and untyped readers, New...WithDefaultValues constructors, instance freshness; known finding D28 (defaults of included records).",
              "Rocq model of default filling + differential correspondence + freshness oracle", "5/C13"),
 "C05": dict(text="Coq proofs for ALL resource trees and requests: the router model dispatches iff an independently written declarative spec says so (route_iff_spec), uniquely, unrouted requests get 404/400 "
                  "as specified with no filter or resource code run, the inference switch (regenerated from handler.go's AST on every run, both modules) equals a protocol table on the whole finite product, "
                  "filters order, Handler() snapshot semantics via a heap model refinement, mount independence under a stated premise (+ refuted witness for dot segments through ServeMux); "
                  "correspondence: 1.3M requests (quick) against the real v2 and root servers built from hand-registered trees, outcomes equal the model's.",
             note="Trusted: kernel, translator (method table, header names, inference switch transcribed from the AST), Go driver; net/http ServeMux behaviour is modelled; decode errors after dispatch are out of scope. "
                  "Known finding: a key '.' or '..' is redirected by ServeMux (mount:servemux-redirects-dot-segment).",
             technique="Rocq proof of a router model vs a declarative spec + AST-regenerated inference table + exhaustive request-product correspondence", design="5/C05"),
 "C12": dict(text="Coq proofs about models of the identifier rules and the type registry (exported_identifier_valid, registry_total, acyclic_input_untouched, duplicates_only_in_conflict_resolution) and three "
                  "refuted full statements with witness manifests replayed on the real generator; what proof cannot decide (output compiles, byte-identical regeneration, checked-in bindings equal regenerated ones) "
                  "is decided by generator runs: 12 (quick) / 110 (thorough) manifests, 3 fresh processes each, go build/vet/test of the output.",
             note="PARTIAL: 'the output compiles and type-checks' is decided by test runs, not by proof (no formal Go type checker). Trusted: kernel, translator, drivers; Go map iteration, regexp, jennifer and the Go tool chain are modelled or external. "
                  "Root-module generator not covered. Four known findings in type_registry.go.",
             technique="Rocq proof of registry/identifier core + multi-process generator runs (test) for compilation and determinism", design="5/C12 and 7"),
 "C18": dict(text="Coq proofs for UNBOUNDED programs (any number of goroutines, operations, keys, any schedule) over a small-step model at the granularity of sync.Map operations and WaitGroup signals: compute at most once, "
                  "no placeholder escapes, no blocking after return, racing callers agree, store not lost, no deadlock, and linearizability by forward simulation; correspondence: 28k (quick) forced schedules on the real "
                  "LazySyncMap of both modules through tag-guarded yield hooks, observations equal the model's, plus a brute-force linearizability oracle.",
             note="Trusted: kernel, translator (shape of lazymap.go), the schedule-forcing controller; atomicity of sync.Map calls and WaitGroup semantics are modelled, not verified; the Go scheduler/memory model are outside the model.",
             technique="Rocq invariants + forward simulation over a small-step model + forced-schedule correspondence via verif-tag hooks", design="5/C18"),
 "C19": dict(text="Coq proofs for ALL event histories and announcement sets: the tracked URIs equal an independent fold spec, earlier snapshots are never written (heap model), the chosen host is eligible and of the best scheme, "
                  "never zero-weight while a positive-weight host is eligible (full strength after fix f35562a), proportionality as an interval characterisation over Q, errors when none eligible; correspondence: exhaustive histories "
                  "up to length 5/6 through tag-guarded exports on both modules, selection results must lie in the model's set over all iteration orders.",
             note="Trusted: kernel, drivers; weights are rationals in the model (Go computes in float64: named gap); Go map iteration = universally quantified permutation; ZooKeeper/treecache not modelled.",
             technique="Rocq proof over event-fold and weighted-choice models + exhaustive history correspondence via verif-tag exports", design="5/C19"),
})

CLAIMED.update({
 "C14": dict(text="Coq proofs for ALL verbs/paths/queries/bodies/thresholds over a byte-level model of EncodeTunnelledQuery / DecodeTunnelledQuery (multipart framing modelled with the boundary as an input and the "
                  "premise that it is fresh): de-tunnelling restores verb, path, raw query, body, content type and headers (tunnel_roundtrip; refuted witness kept for an empty non-nil body), requests below the threshold are untouched, "
                  "the threshold test (regenerated from http.go's AST, both modules) is exact, malformed tunnelled requests are rejected, serving with any threshold equals serving untunnelled; correspondence: the real client entry points, "
                  "the wire (Request.Write / http.ReadRequest) and the real DecodeTunnelledQuery + a real server with a recording stub, on the property's grid, both modules.",
             note="Trusted: kernel, translator (header/content-type constants, threshold condition), Go driver; mime/multipart is modelled, not verified (framing model + boundary freshness premise). One known finding (empty non-nil body through the exported EncodeTunnelledQuery).",
             technique="Rocq proof over a byte-level tunnelling model + AST-regenerated threshold condition + wire-level differential correspondence", design="5/C14"),
 "C15": dict(text="Coq proofs for ALL context paths in the grammar, encoded resource paths and queries over a hand-written model of the net/url functions formatQueryUrl uses: scheme and host kept, escaped path = context ++ resource path "
                  "with the root segment exactly once, escaped path / raw query / String() byte-identical to the encoders' output (no double encoding, decoding, dot-segment or slash normalisation), the code's LastIndex surgery equals an independent context specification; "
                  "a 256-byte sweep shows every byte the ROR2 path escaper leaves raw is accepted verbatim by net/url; correspondence: exhaustive context grammar x encoded paths x queries through the real client API of both modules.",
             note="Trusted: kernel, translator (escape tables), Go driver; net/url is modelled, not verified (userinfo, IPv6, opaque URLs, fragments are explicitly outside the model).",
             technique="Rocq proof over a net/url model + translator-regenerated escape tables + exhaustive grammar correspondence", design="5/C15"),
})

CLAIMED.update({
 "C02": dict(text="Coq proofs for ALL keys/documents: an encoded key never contains '/', path segments are recovered by splitting, string keys round-trip through the path flavour, encoded keys are valid ROR2, the method header is always sent, "
                  "and a generated client call reaches exactly the registered method through the router (call_reaches_method_partial, via C05's route_iff_spec; the full statement is kept as a Definition with a refuted witness); tunnelling composes through C14. "
                  "Correspondence + oracle: every generated client method of a 12-resource family (all key types, simple, action set, sub-resources) through the REAL generated client and server (recording mocks) under 3 mountings, tunnelling thresholds, "
                  "strict/lenient: arguments seen by the resource == arguments passed, value returned == value the mock returned; request line/query/headers/dispatch target equal the model's.",
             note="PARTIAL: the reply direction is decided by the driver oracle (and C08 for statuses/errors), not by a Coq statement. Trusted: kernel, translators, the HTTP driver; net/http (ServeMux cleaning, header sanitisation) is external. "
                  "Known findings: created ids with control bytes / edge spaces in X-RestLi-Id (D34), ServeMux redirecting keys '.' '..' or containing '/'. v2 module.",
             technique="Rocq composition proof (escape tables + router + tunnelling lemmas) + end-to-end differential run through the real generator, client and server", design="5/C02"),
 "C03": dict(text="An independent relational reference (Spec/RestliSpec.v: json_denotes on JSON trees, ror2_denotes directly on bytes, any byte may be percent-encoded, reserved characters must be) and Coq proofs for ALL schemas/values that the encoder model's "
                  "JSON and ROR2 output conforms to it (with a refuted witness for nullable unions with no member), reserved characters never appear raw, emitted keys are exactly field names / map keys / aliases, and converse acceptance theorems "
                  "(leaf/array/map over any schema; all types incl. records with unknown members in any order for schemas without includes/defaults; ROR2 leaves under any percent-encoding); correspondence: library output parsed by an independent strict JSON parser and an "
                  "independent Go ROR2 parser and compared with an independent reference encoder; conforming variants (key permutations, unknown members, whitespace, alternative escapes, surrogate pairs, maximal/minimal/lower-case percent-encoding) fed to the real readers; envelope shapes and header constants.",
             note="Trusted: kernel, translator (envelope member names, headers), the independent Go reference encoder/parsers, Codec.Json.parse_json as the shared lexical layer for JSON bytes (json_parse_render kept as a Definition, covered by the differential run), float text premises. "
                  "Known findings: nullable union with no member written {} / () instead of null; included-record defaults. D11 (ROR2 bytes >= 0x80 as %80) accepted by the reference and documented.",
             technique="Rocq conformance proof against an independent relational spec + two-direction differential check with independent parsers/renderers", design="5/C03"),
 "C08": dict(text="Coq proofs for ALL heaps, method kinds and implementation outcomes over a model of the response path (ServeHTTP tail, newErrorResponsef call sites, recover, default statuses regenerated from the Register* functions by the translator, client error decoding): "
                  "an error response is delivered with equal fields and its status (500 when unset) and the error header; any other error, panic or typed-nil entity becomes an error response with a failure status; the resource's error object is never written "
                  "(the in-place write is a table obligation); success statuses are the protocol defaults unless overridden; malformed requests are 400 without invocation. Correspondence + oracle: every method kind of the resource family x ~80 outcomes x 3 mountings through the real generated client/server; "
                  "thorough tier adds concurrent requests sharing error objects under the race detector.",
             note="Trusted: kernel, translator (status tables), HTTP driver; net/http external. batch_errors_under_right_key is C16's subject (driver-checked here).",
             technique="Rocq proof over a response-path model with translator-regenerated status tables + outcome-space differential run (+ race detector in thorough)", design="5/C08"),
 "C17": dict(text="Coq proofs for ALL trees, requests, filter lists, histories and interleavings over an access-logging model (footprints derived from the router, response tail, D2 write log, registry): serving a request writes only cells of that request, "
                  "everything shared is only read (or atomic/locked), two operations never conflict, any interleaving gives each request its isolated-run outcome, D2 snapshots are copy-on-write, the rand state is always accessed under its lock; regression lemmas show the two fixed defects "
                  "(in-place error message, unlocked rng) would conflict. The tie to the real code is the race detector: concurrent mixed requests / client calls / resolutions / registry use, results compared with serial runs.",
             note="PARTIAL: data-race freedom of the real Go program is NOT decided by proof (Go memory model and scheduler are runtime facts): proved is non-interference of the modelled accesses, and race freedom given adequacy of the footprints; adequacy is tested with -race runs. "
                  "Races inside user filters/resources and concurrent Register* on a live server are out of scope.",
             technique="Rocq non-interference proof over access footprints + race-detector differential runs", design="5/C17 and 7"),
})

CLAIMED.update({
 "C10": dict(text="Coq proofs for ALL schemas and values over a schema-generic interpreter of the generated Equals / ComputeHash code and a bit-exact 32-bit FNV-1a model (constants, shift sequences, zero normalisation and map-entry sorting read off hasher.go's AST for both modules): "
                  "Equals is reflexive, symmetric and transitive on well-formed values, insensitive to map-entry order and nil-vs-empty, characterised exactly (equalsV = true <-> same), discriminates any differing position, Equal implies same hash (v2 and root module), "
                  "the hash is a pure function of the value; refuted witnesses show the contract fails without zero normalisation or without sorting map-entry hashes. Correspondence: pools of values, round-tripped and permuted copies and every single-position mutation, all pairs, "
                  "through the real generated Equals/ComputeHash; model agrees on every verdict and hash.",
             note="Trusted: kernel, translator (FNV tables), driver; the family through the real generator (v2); NaN excluded as the property says; hashV truncates at insufficient fuel (theorems hold at every fuel; correspondence uses fuel 64).",
             technique="Rocq proof over an Equals/hash interpreter + AST-read FNV tables + pairwise differential correspondence through the real generator", design="5/C10"),
 "C16": dict(text="Coq proofs for ALL key lists over models of the generic (hash-bucketed) and primitive batch key sets and of the response re-keying: adding fails iff two keys are key-equal (complex keys on the key part only), ids are each key once in ascending encoded order, "
                  "locate returns the stored original also for colliding hashes (uses C10's Equal => same hash), every reply entry is filed under the caller's original key with nothing lost, duplicated or moved, an unknown key is an error. Correspondence: 13 key types, "
                  "hash-colliding keys (corpus + birthday search on the real fnv1a), keys equal up to params, escaping-relevant keys, 9 reply kinds through the real batchkeyset API and response unmarshalling with a pointer-identity oracle.",
             note="Trusted: kernel, driver; premise: a reply does not list two key-equal keys in one map (a Go map keeps the later entry). v2 module.",
             technique="Rocq proof over key-set and re-keying models (on top of the C10 hash contract) + differential correspondence with colliding keys", design="5/C16"),
})

CLAIMED["C01"]["text"] = ("Coq proofs, for ALL schemas, values, flavours and both JSON modes, that decoding the encoder's output yields the expected value: ROR2 down to bytes over the cursor-level reader model "
    "(c01_ror2_decode_roundtrip: escaping tables of the current tree, token lemmas, records in any order, includes, unions, defaults), JSON down to bytes (c01_json: tree-level round trip, parse_json(render_json d) = to_jdoc d for compact and pretty, "
    "top-level decode_json), both formats decode to the SAME value (json_ror2_same_value); the exact side conditions are stated and their necessity refuted by witnesses (JSON strings/keys must be valid UTF-8; NaN excluded by typing). "
    "The model is tied to the code on every run: ~2.5k family values (every metacharacter, single-byte sweep over all 256 bytes) encoded and decoded by the real generated bindings in the 5 wire formats; the model must produce the same bytes and values; "
    "the round-trip predicate (Equals + structural equality) is evaluated on the implementation directly.")
CLAIMED["C06"]["text"] = ("Coq proofs for ALL schemas and well-shaped documents over the JSON-tree decoder model: the reported missing set equals an independent declarative specification (missing_exact), the result is independent of member order at every depth, "
    "unknown fields of any shape are skipped, optional/defaulted fields are never reported, with refuted witnesses for the top-level non-record case (known finding D33); the cursor-level ROR2 reader is being proved to refine the tree decoder (Props/C06_ror2.v when present). "
    "Correspondence + independent oracle: reference encodings mutated by deleting random field subsets at every depth, nulling, permuting keys, injecting unknown fields, decoded by the JSON, ROR2, query-parameter (aggregate) and untyped readers; "
    "client level: the generated strict and lenient clients on mutated replies (exact field set with the value kept / no error with the partial value).")
CLAIMED["C11"]["text"] = ("Coq proofs for ALL schemas and values: an invalid value (union with 0 or >= 2 members, illegal enum constant) is never emitted and every typed valid value is, unions decode to exactly one member, fixed sizes are enforced, unknown enum symbols become the unknown value "
    "(JSON tree and ROR2 cursor level); partial updates: CheckFields accepts exactly the legal patches, encoding succeeds iff legal at any nesting depth, delete-list decoding, excluded touches fail before sending and are rejected by the server-side reader "
    "(Props/C11_patch.v; general patch round trip not proved: example + differential run). Correspondence + oracle: values drawn with violations allowed, invalid documents, every assignment of {none, delete, set, nested patch} to each field of small records x exclusion specs "
    "through the real generated code.")
CLAIMED["C11"]["note"] = CODEC_NOTE + " Known findings: generated partial-update structs mishandle fields inherited through included records (patch:includes:*); D33 witness (top-level array of records with an empty required union)."
CLAIMED["C13"]["text"] = ("Coq proofs for ALL schemas and documents over the decoder model: every own defaulted field absent from the document holds exactly the decoded literal, a present value wins, defaults are never reported missing; refuted witnesses for the two gaps of the generated code "
    "(defaults of included records - known finding D28; a top-level record that raises the missing-fields error skips its own defaults). Correspondence + oracle: documents omitting random subsets of defaulted fields (direct, nested, included; primitive, enum, fixed, bytes, record, union, "
    "array and map defaults) decoded by the JSON, ROR2 and untyped readers; New...WithDefaultValues constructors; freshness of default-populated values (elements included) across decoded and constructed instances.")
CLAIMED["C07"]["text"] = CLAIMED["C07"]["text"] + " Partial updates (Props/C11_patch.v): a patch touching an excluded field fails on the client before anything is sent and is rejected by the server-side reader with the per-method leading-scope offsets."

# ---- coverage added later: untyped reader model, ROR2 refinement, decode under any exclusion spec, root-module twins ----
ROOT_TWIN = (" ROOT module generation: the same family is pushed through the real root generator and the same oracles and model (instantiated on the flattened "
             "environment, Corr/Root*.v; encoders modulo member order, decoders exactly) run against the root bindings.")
CLAIMED["C06"]["text"] = CLAIMED["C06"]["text"].replace("the cursor-level ROR2 reader is being proved to refine the tree decoder (Props/C06_ror", "the cursor-level ROR2 reader is PROVED to refine the tree decoder exactly, errors and landing position included (decR_refines, Props/C06_ror") + (
    " Untyped reader (NewInterfaceReader): modelled over trees of Go values (Codec/AnyReader.v), proved never to panic and to agree with the JSON reader on documents satisfying untyped_exact "
    "(readers_agree; the excluded cases are genuine reader-kind differences with vm_compute witnesses), compared with the implementation on hostile native Go values (mode cany)." + ROOT_TWIN)
CLAIMED["C04"]["text"] = CLAIMED["C04"]["text"] + (" Untyped reader: decA_never_panics (unconditional) + mode cany on hostile native Go values (typed nils, pointers, every int/uint width, extreme floats, "
    "named byte slices, chans, funcs, cyclic values under a deadline). HTTP level: malformed requests/responses through the generated server and client (oracle)." + ROOT_TWIN)
CLAIMED["C07"]["text"] = CLAIMED["C07"]["text"] + (" Whole-document decode under ANY exclusion spec (Props/C07_decode.v): the decoder rejects iff the document carries an excluded member at a position it reaches "
    "(error = first offender in document order), otherwise reports exactly the absent required fields that are not excluded, for the JSON tree decoder, the cursor-level ROR2 reader (through decR_refines) and the "
    "untyped reader (through readers_agree); genuine corner cases kept as refuted statements with witnesses (array items are not consulted, error names the first offender so it is order dependent, unknown members are "
    "checked against the spec before the field lookup, non-well-formed directive sets). Binding level: which spec the generated client / RegisterResource hand to the codec per method (oracle on the family resources: "
    "read-only only / create-only only / both / none)." + ROOT_TWIN)
for _p in ("C01", "C11", "C13"):
    CLAIMED[_p]["text"] = CLAIMED[_p]["text"] + ROOT_TWIN
CLAIMED["C10"]["text"] = CLAIMED["C10"]["text"] + " ROOT module: generated Equals/ComputeHash of the root generator and root fnv1a/equals against the same model on the flattened environment (Corr/RootHashCorr.v); the translator compares the root and v2 fnv1a/equals sources on every run."
CLAIMED["C16"]["text"] = CLAIMED["C16"]["text"] + " ROOT module: root batchkeyset and restlidata.BatchResponse re-keying against the same model with the root tables (Corr/RootKeySetCorr.v)."
CLAIMED["C10"]["note"] = CLAIMED["C10"]["note"].replace("(v2)", "(v2 and root)")
CLAIMED["C16"]["note"] = CLAIMED["C16"]["note"].replace(" v2 module.", " v2 and root modules.")

ROOT_HTTP = (" ROOT module: the resource family through the real root generator, generated root clients against the generated root RegisterResource, same oracles; the v2 HTTP models are "
             "evaluated on the root cases under Corr/RootHttpCorr.v (equal tables / inference / tunnelling condition and a declaration-level comparison of restli/*.go, re-checked on every run).")
for _p in ("C02", "C08"):
    CLAIMED[_p]["text"] = CLAIMED[_p]["text"] + ROOT_HTTP

CLAIMED["C13"]["text"] = CLAIMED["C13"]["text"] + (" CONSTRUCTORS: New<X>WithDefaultValues is modelled (Codec/Ctor.v) and proved (Props/C13_ctor.v): every own defaulted field holds exactly the decoded literal, "
    "required record fields are constructed recursively along chains of records with own defaults (ctor_at_every_depth), constructor = decoder on the empty document under a stated condition; three full statements "
    "are refuted with witnesses replayed on the real generator (constructor vs decoder on required fields; defaults below a record without own defaults - known finding; included-record defaults - D28); "
    "every generated constructor of the family is compared with the model in both modules (Corr/CtorCorr.v, Corr/RootCtorCorr.v).")
CLAIMED["C16"]["text"] = CLAIMED["C16"]["text"] + (" Props/C16_defaults.v: with the real codec a reply that mentions exactly the requested keys is accepted and filed under the originals when every key is default-complete "
    "(proved through the C01 round trip); without that premise the statement is refuted by a record key that leaves a defaulted field unset (known finding).")

for _p in ("C11", "C07"):
    CLAIMED[_p]["text"] = CLAIMED[_p]["text"] + (" ROOT partial-update bindings (flat Delete_Fields / Set_Fields structs): own model Codec/RootPatch.v, 23 theorems incl. a proved patch round trip "
        "(Props/C11_rootpatch.v) and own correspondence (Corr/RootPatchCorr.v); only the ROR2 reading of patch documents is oracle-only.")
CLAIMED["C11"]["text"] = CLAIMED["C11"]["text"].replace("(Props/C11_patch.v; general patch round trip not proved: example + differential run)", "(Props/C11_patch.v; for the v2 bindings the general patch round trip is not proved: example + differential run)")
CODEC_NOTE_OLD = "root partial-update bindings: oracle only)"
for _p in list(CLAIMED):
    if CODEC_NOTE_OLD in CLAIMED[_p].get("note", ""):
        CLAIMED[_p]["note"] = CLAIMED[_p]["note"].replace(CODEC_NOTE_OLD, "root partial-update bindings: own model Codec/RootPatch.v)")

def main():
    checks, na = [], []
    for p in ALL:
        if p in CLAIMED:
            c = CLAIMED[p]
            checks.append(dict(property_id=p, quick_cmd="./check %s --tier quick" % p,
                               thorough_cmd="./check %s --tier thorough" % p,
                               evidence_file="evidence/%s.json" % p,
                               replay_cmd_template="./check %s --replay {path}" % p,
                               level_claimed=dict(category="proof", text=c["text"], design_ref="DESIGN.md section " + c["design"]),
                               level_note=c["note"], technique=c["technique"]))
        else:
            na.append(dict(property_id=p, reason="check not built yet (framework under construction; see DESIGN.md section 8 for the build order)"))
    hooks_commits = []
    hc = os.path.join(V, "hooks_commits.txt")
    if os.path.exists(hc):
        hooks_commits = [l.strip() for l in open(hc) if l.strip()]
    m = dict(version=1, setup_cmd="./setup.sh",
             hooks=dict(guard="verif", enable="go build -tags verif",
                        baseline_off_cmd="cd /repo && go test -mod=mod -vet=off -count=1 ./... && cd v2 && go test -mod=mod -vet=off -count=1 ./...",
                        source_commits=hooks_commits, add_only=True),
             checks=checks,
             notes="Machine-checked proof in Coq 8.16.1 of executable Gallina models tied to /repo by a translator (tables regenerated "
                   "on every run) and a differential correspondence check (Go drivers built against /repo's working tree; the model is "
                   "evaluated on the same cases inside Coq with vm_compute). See DESIGN.md.",
             not_applicable=na)
    json.dump(m, open(os.path.join(V, "MANIFEST.json"), "w"), indent=1)
    import jsonschema
    jsonschema.validate(m, json.load(open("/root/.vp/MANIFEST.schema.json")))
    print("MANIFEST.json: %d checks, %d not_applicable" % (len(checks), len(na)))
main()
