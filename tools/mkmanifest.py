#!/usr/bin/env python3
"""Regenerates /verif/MANIFEST.json from the table below (keeps it valid at all times)."""
import json, os, subprocess
V = os.path.dirname(os.path.dirname(os.path.abspath(__file__)))
ALL = ["C%02d" % i for i in range(1, 21)]

CLAIMED = {
 "C20": dict(
  text="Machine-checked proof (Coq 8.16.1) that the model of CleanTargetDir preserves every non-owned file at its path "
       "with its content (also when the clean aborts), removes only owned files and directories whose files were all owned, "
       "creates nothing, is idempotent, keeps '.', and that the ownership constants re-read from /repo are specific; the model "
       "is tied to the code by running the real CleanTargetDir (both module generations) on ~19k directory trees per run and "
       "evaluating the model on the same trees inside Coq (vm_compute), plus the property's predicates evaluated directly on "
       "the implementation's result.",
  note="Trusted: Coq kernel; translator (GeneratedFileSuffix / ManifestFile constants); the cases_*.v generator and Go driver; "
       "the file system is modelled (sorted directory listings, os.Remove semantics), symlinks/permissions not modelled. "
       "'Regeneration reproduces the same files' is exercised under C12, not proved here. No axioms (Print Assumptions: closed).",
  technique="Rocq proof over a tree model of CleanTargetDir + translator-regenerated constants + differential correspondence (vm_compute on cases.v)",
  design="5/C20"),
}

def main():
    checks, na = [], []
    for p in ALL:
        if p in CLAIMED:
            c = CLAIMED[p]
            checks.append(dict(property_id=p, quick_cmd="./check %s --tier quick" % p,
                               thorough_cmd="./check %s --tier thorough" % p,
                               evidence_file="evidence/%s.json" % p,
                               replay_cmd_template="./check %s --replay {path}" % p,
                               level_claimed=dict(category="proof", text=c["text"], design_ref="DESIGN.md section " + c["design"]),
                               level_note=c["note"], technique=c["technique"]))
        else:
            na.append(dict(property_id=p, reason="check not built yet (framework under construction; see DESIGN.md section 8 for the build order)"))
    hooks_commits = []
    hc = os.path.join(V, "hooks_commits.txt")
    if os.path.exists(hc):
        hooks_commits = [l.strip() for l in open(hc) if l.strip()]
    m = dict(version=1, setup_cmd="./setup.sh",
             hooks=dict(guard="verif", enable="go build -tags verif",
                        baseline_off_cmd="cd /repo && go test -mod=mod -vet=off -count=1 ./... && cd v2 && go test -mod=mod -vet=off -count=1 ./...",
                        source_commits=hooks_commits, add_only=True),
             checks=checks,
             notes="Machine-checked proof in Coq 8.16.1 of executable Gallina models tied to /repo by a translator (tables regenerated "
                   "on every run) and a differential correspondence check (Go drivers built against /repo's working tree; the model is "
                   "evaluated on the same cases inside Coq with vm_compute). See DESIGN.md.",
             not_applicable=na)
    json.dump(m, open(os.path.join(V, "MANIFEST.json"), "w"), indent=1)
    import jsonschema
    jsonschema.validate(m, json.load(open("/root/.vp/MANIFEST.schema.json")))
    print("MANIFEST.json: %d checks, %d not_applicable" % (len(checks), len(na)))
main()
