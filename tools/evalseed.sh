#!/bin/bash
# usage: tools/evalseed.sh <seed dir e.g. /tmp/seedout/C05-2> <package dir of the demo relative to the repo root> <Cxx> [name]
# Confirms a seeded change independently (applies to HEAD, existing tests pass, demo passes without / fails with the change),
# runs ./check Cxx against it (scratch worktree + scratch copy of /verif) and files it under /verif/seeded/Cxx/<name>/.
sd=$(readlink -f "$1"); pkg=$2; pid=$3; name=${4:-$(basename "$sd")}
export GOFLAGS=-mod=mod GOPROXY=off GOSUMDB=off GOTOOLCHAIN=local
wt=$(mktemp -d /tmp/evalwt-XXXXXX); rmdir "$wt"
git -C /repo worktree add -q --detach "$wt" HEAD || exit 9
trap 'git -C /repo worktree remove --force "$wt" >/dev/null 2>&1; rm -rf "$wt"; git -C /repo worktree prune' EXIT
demo=$(ls "$sd"/*_test.go | head -1)
mod="$wt"; case "$pkg" in v2/*) mod="$wt/v2"; rel="./${pkg#v2/}";; *) rel="./$pkg";; esac
mkdir -p "$wt/$pkg"; cp "$demo" "$wt/$pkg/zz_seed_demo_test.go"
( cd "$mod" && go test ${SEED_TESTFLAGS:-} -vet=off -count=1 "$rel" >/tmp/evalseed.pre 2>&1 ); pre=$?
git -C "$wt" apply "$sd/patch.diff" || { echo "PATCH DOES NOT APPLY"; exit 9; }
( cd "$mod" && go test ${SEED_TESTFLAGS:-} -vet=off -count=1 "$rel" >/tmp/evalseed.post 2>&1 ); post=$?
rm "$wt/$pkg/zz_seed_demo_test.go"
( cd "$wt" && go build ./... >/dev/null 2>&1; go test -vet=off -count=1 ./... 2>&1 | grep -v "no test files" | grep -v "^ok" ; cd v2 && go test -vet=off -count=1 ./... 2>&1 | grep -v "no test files\|internal/tests\|^ok" ) > /tmp/evalseed.suite
echo "demo without patch: exit $pre (want 0); with patch: exit $post (want != 0); existing suite failures with patch:"; cat /tmp/evalseed.suite | head -5
out=$(cd /verif && MUT_TAIL=6 MUT_REPLAY_BYTES=400 tools/mutcheck.sh "$sd/patch.diff" "$pid" quick 2>&1); rc=$?
echo "$out" | tail -12 | cut -c1-300
echo "check exit: $rc"
dst=/verif/seeded/$pid/$name; mkdir -p "$dst"; cp "$sd/patch.diff" "$dst/"; cp "$demo" "$dst/"; cp "$sd/README.md" "$dst/" 2>/dev/null
python3 - "$dst" "$pid" "$pkg" "$pre" "$post" "$rc" <<'PY'
import json,sys,re
dst,pid,pkg,pre,post,rc=sys.argv[1:]
suite=open('/tmp/evalseed.suite').read().strip()
json.dump(dict(property=pid, demo_package=pkg, demo_without_patch_exit=int(pre), demo_with_patch_exit=int(post),
  existing_suite_failures_with_patch=suite, check_quick_exit=int(rc),
  what_i_ran="tools/evalseed.sh: worktree of /repo HEAD; demo test run before/after `git apply patch.diff`; go test ./... in both modules with the patch; tools/mutcheck.sh patch.diff %s quick" % pid,
  needs_to_manifest="see README.md", caught=(int(rc)==1)), open(dst+'/meta.json','w'), indent=1)
PY
