#!/bin/bash
# usage: tools/reseed.sh Cxx name [check-id]   re-run the quick check against a filed seeded change and update its meta.json
pid=$1; name=$2; chk=${3:-$pid}
d=/verif/seeded/$pid/$name
out=$(cd /verif && MUT_TAIL=6 MUT_REPLAY_BYTES=600 tools/mutcheck.sh "$d/patch.diff" "$chk" quick 2>&1); rc=$?
sig=$(echo "$out" | grep -o '"signature": "[^"]*"' | head -1)
nf=$(echo "$out" | grep -c "no-failing-input-found")
python3 - "$d" "$rc" "$sig" "$nf" <<'PY'
import json,sys
d,rc,sig,nf=sys.argv[1:]
m=json.load(open(d+'/meta.json'))
m['check_quick_exit']=int(rc); m['caught']=(int(rc)==1)
m['reported_as']=('no-failing-input-found' if int(nf)>0 and not sig else sig)
m['re_evaluated']="tools/reseed.sh after strengthening the check"
json.dump(m,open(d+'/meta.json','w'),indent=1)
print(d, 'exit',rc, m['reported_as'])
PY
